"""A fixed pool U of runtime objects, each with a source spelling valid after `from vp.prelude import *`,
plus inhabitants(t): diverse boundary-biased members of a Ty."""
from __future__ import annotations

import itertools
from typing import NamedTuple, Optional

from vp import prelude, ty
from vp.ty import Ty


class Item(NamedTuple):
    src: str
    obj: object


def _mk(srcs) -> list:
    ns = dict(ty.eval_ns())
    out = []
    for s in srcs:
        out.append(Item(s, eval(s, ns)))
    return out


SCALAR_SRCS = [
    "0", "1", "-1", "2", "255", "300", "True", "False", "0.0", "1.5", "-2.0", "1j", "''", "'a'", "'ab'",
    "b''", "b'a'", "b'ab'", "None", "Color.RED", "Color.GREEN", "Color.BLUE", "Num.ONE", "Num.TWO",
    "A()", "A(1)", "B()", "B(1)", "C()", "DC(1)", "DC(2, 'z')", "AC()",
]
CLASS_SRCS = ["int", "bool", "str", "bytes", "float", "A", "B", "C", "Color", "Num", "list", "type", "object", "DC"]
CONTAINER_SRCS = [
    "[]", "[1]", "[1, 2]", "[True]", "['a']", "[1, 'a']", "[None]", "[1.5]", "[A()]", "[B()]", "[[1]]", "[(1, 'a')]",
    "()", "(1,)", "(1, 2)", "(1, 'a')", "('a', 1)", "(1, 'a', 'b')", "(1, 2, 3)", "('a',)", "('a', 'b')", "(True,)",
    "(1.5, 1)", "(None,)", "(1, None)", "(A(), B())", "((1,), 2)", "(1, 'a', 1.5)", "(1, 'a', 'b', 1.5)",
    "set()", "{1}", "{1, 2}", "{'a'}", "{1, 'a'}", "{None}",
    "frozenset()", "frozenset({1})", "frozenset({'a'})", "frozenset({1, 'a'})",
    "{}", "{'a': 1}", "{'a': 1, 'b': 'x'}", "{'a': 'x'}", "{'b': 'x'}", "{1: 'a'}", "{'a': 1, 'c': A()}",
    "{'a': 1, 'c': C()}", "{'a': 1, 'zz': 0}", "{'a': True}", "{'a': 1, 'b': None}", "{'a': None, 'b': 'x'}", "{'k': [1]}", "{'k': 1}", "{'k': 1.5}", "{'a': None}", "{1: 1}", "{'a': 1.5}",
    "range(3)", "bytearray(b'a')", "len", "ident", "(lambda: 0)",
]

U: list = _mk(SCALAR_SRCS + CLASS_SRCS + CONTAINER_SRCS)
U_BY_SRC = {it.src: it for it in U}


def members_of(t: Ty, pool=None) -> list:
    return [it for it in (pool or U) if ty.member(it.obj, t) is True]


def non_members_of(t: Ty, pool=None) -> list:
    return [it for it in (pool or U) if ty.member(it.obj, t) is False]


def subset_over_u(x: Ty, y: Ty, pool=None):
    """members(X) ⊆ members(Y) over U: returns the first counterexample Item or None."""
    for it in pool or U:
        if ty.member(it.obj, x) is True and ty.member(it.obj, y) is False:
            return it
    return None


def _wrap(kind: str, items) -> Item:
    items = list(items)
    if kind == "list":
        return Item("[" + ", ".join(i.src for i in items) + "]", [i.obj for i in items])
    if kind == "tuple":
        inner = ", ".join(i.src for i in items) + ("," if len(items) == 1 else "")
        return Item("(" + inner + ")", tuple(i.obj for i in items))
    if kind == "set":
        if not items:
            return Item("set()", set())
        return Item("{" + ", ".join(i.src for i in items) + "}", {i.obj for i in items})
    if kind == "frozenset":
        if not items:
            return Item("frozenset()", frozenset())
        return Item("frozenset({" + ", ".join(i.src for i in items) + "})", frozenset(i.obj for i in items))
    raise ValueError(kind)


def _hashable(it: Item) -> bool:
    try:
        hash(it.obj)
        return True
    except TypeError:
        return False


def inhabitants(t: Ty, rng, limit: int = 8, depth: int = 0) -> list:
    """Items with member(obj, t) is True, biased to boundaries. Deterministic given rng state."""
    k = t.kind
    out: list = []
    if k in ("Any", "Object"):
        out = [U_BY_SRC[s] for s in ("1", "'a'", "None", "[1]", "A()", "(1, 'a')", "True", "1.5")]
    elif k in ("Never", "Opaque", "Callable"):
        out = [U_BY_SRC["len"], U_BY_SRC["ident"]] if k == "Callable" else []
    elif k == "NoneT":
        out = [U_BY_SRC["None"]]
    elif k in ("Cls", "Lit", "NewType", "TypedDict", "TypeOf", "AtMost"):
        out = members_of(t)
    elif k == "Union":
        per = max(2, limit // max(1, len(t.args)))
        for a in t.args:
            out.extend(inhabitants(a, rng, per, depth + 1))
    elif k in ("List", "Set", "FrozenSet", "VarTuple", "Seq", "Iter", "Coll"):
        elems = inhabitants(t.args[0], rng, 6, depth + 1)
        wrapk = {"List": "list", "Set": "set", "FrozenSet": "frozenset", "VarTuple": "tuple", "Seq": "list",
                 "Iter": "list", "Coll": "list"}[k]
        if wrapk in ("set", "frozenset"):
            elems = [e for e in elems if _hashable(e)]
        out.append(_wrap(wrapk, []))
        for e in elems[:3]:
            out.append(_wrap(wrapk, [e]))
        if len(elems) >= 2:
            out.append(_wrap(wrapk, [elems[0], elems[-1]]))
            out.append(_wrap(wrapk, rng.sample(elems, min(3, len(elems)))))
        if k == "Seq":
            out += [_wrap("tuple", elems[:2])] + [i for i in (U_BY_SRC["'ab'"], U_BY_SRC["b'ab'"]) if ty.member(i.obj, t) is True]
        if k in ("Iter", "Coll"):
            hs = [e for e in elems if _hashable(e)][:2]
            out += [_wrap("set", hs), _wrap("tuple", elems[:1])]
    elif k in ("Dict", "Map"):
        ks = [e for e in inhabitants(t.args[0], rng, 4, depth + 1) if _hashable(e)]
        vs = inhabitants(t.args[1], rng, 4, depth + 1)
        out.append(Item("{}", {}))
        if ks and vs:
            out.append(Item("{" + f"{ks[0].src}: {vs[0].src}" + "}", {ks[0].obj: vs[0].obj}))
            if len(ks) > 1:
                out.append(Item("{" + f"{ks[0].src}: {vs[0].src}, {ks[-1].src}: {vs[-1].src}" + "}",
                                {ks[0].obj: vs[0].obj, ks[-1].obj: vs[-1].obj}))
    elif k == "Tuple":
        cols = [inhabitants(a, rng, 4, depth + 1) for a in t.args]
        if all(cols):
            out.append(_wrap("tuple", [c[0] for c in cols]))
            out.append(_wrap("tuple", [c[-1] for c in cols]))
            for _ in range(3):
                out.append(_wrap("tuple", [rng.choice(c) for c in cols]))
        if not t.args:
            out = [Item("()", ())]
    elif k == "MixTuple":
        prefix, star, suffix = t.args
        pc = [inhabitants(a, rng, 3, depth + 1) for a in prefix]
        sc = [inhabitants(a, rng, 3, depth + 1) for a in suffix]
        mids = inhabitants(star, rng, 3, depth + 1)
        if all(pc) and all(sc):
            for n in range(0, 4):
                if n and not mids:
                    break
                mid = [mids[i % len(mids)] for i in range(n)]
                out.append(_wrap("tuple", [rng.choice(c) for c in pc] + mid + [rng.choice(c) for c in sc]))
    elif k in ("SeqPat", "DictPat"):
        out = members_of(t)
    # filter (defensive): only definite members, de-duplicated by source
    seen = set()
    res = []
    for it in out:
        if it.src in seen:
            continue
        seen.add(it.src)
        if ty.member(it.obj, t) is True:
            res.append(it)
    if len(res) > limit:
        head = res[: limit // 2]
        rest = res[limit // 2:]
        res = head + rng.sample(rest, limit - len(head))
    return res
