"""A fixed pool U of runtime objects, each with a source spelling valid after `from vp.prelude import *`,
plus inhabitants(t): diverse boundary-biased members of a Ty."""
from __future__ import annotations

import itertools
from typing import NamedTuple, Optional

from vp import prelude, ty
from vp.ty import Ty


class Item(NamedTuple):
    src: str
    obj: object


def _mk(srcs) -> list:
    ns = dict(ty.eval_ns())
    out = []
    for s in srcs:
        out.append(Item(s, eval(s, ns)))
    return out


SCALAR_SRCS = [
    "0", "1", "-1", "2", "255", "300", "True", "False", "0.0", "1.5", "-2.0", "1j", "''", "'a'", "'ab'",
    "b''", "b'a'", "b'ab'", "None", "Color.RED", "Color.GREEN", "Color.BLUE", "Num.ONE", "Num.TWO",
    "A()", "A(1)", "B()", "B(1)", "C()", "DC(1)", "DC(2, 'z')", "AC()",
]
CLASS_SRCS = ["int", "bool", "str", "bytes", "float", "A", "B", "C", "Color", "Num", "list", "type", "object", "DC"]
CONTAINER_SRCS = [
    "[]", "[1]", "[1, 2]", "[True]", "['a']", "[1, 'a']", "[None]", "[1.5]", "[A()]", "[B()]", "[[1]]", "[(1, 'a')]",
    "()", "(1,)", "(1, 2)", "(1, 'a')", "('a', 1)", "(1, 'a', 'b')", "(1, 2, 3)", "('a',)", "('a', 'b')", "(True,)",
    "(1.5, 1)", "(None,)", "(1, None)", "(A(), B())", "((1,), 2)", "(1, 'a', 1.5)", "(1, 'a', 'b', 1.5)",
    "set()", "{1}", "{1, 2}", "{'a'}", "{1, 'a'}", "{None}",
    "frozenset()", "frozenset({1})", "frozenset({'a'})", "frozenset({1, 'a'})",
    "{}", "{'a': 1}", "{'a': 1, 'b': 'x'}", "{'a': 'x'}", "{'b': 'x'}", "{1: 'a'}", "{'a': 1, 'c': A()}",
    "{'a': 1, 'c': C()}", "{'a': 1, 'zz': 0}", "{'a': True}", "{'a': 1, 'b': None}", "{'a': None, 'b': 'x'}", "{'k': [1]}", "{'k': 1}", "{'k': 1.5}", "{'a': None}", "{1: 1}", "{'a': 1.5}",
    "range(3)", "bytearray(b'a')", "len", "ident", "(lambda: 0)",
]

U: list = _mk(SCALAR_SRCS + CLASS_SRCS + CONTAINER_SRCS)
U_BY_SRC = {it.src: it for it in U}

# Instances of the prelude's user-defined generic classes (a separate pool: only checks that generate Gen terms use it)
_GEN_VALS = ["1", "'a'", "1.5", "True"]


def _gen_srcs() -> list:
    out = []
    for cls, views in ty.GEN_VIEWS.items():
        for args in itertools.product(_GEN_VALS, repeat=len(views)):
            if cls is prelude.GRevDict:
                out.append(f"GRevDict({{{args[1]}: {args[0]}}})")
            elif cls is prelude.GList:
                out.append(f"GList([{args[0]}])")
            else:
                out.append(f"{cls.__name__}({', '.join(args)})")
    out += ["GPair([1], None)", "GPair(['a'], 1)", "GBox([1])", "GBox(['a'])", "GBox(GBox(1))", "GBox(GBox('a'))",
            "GRevDict()", "GList()", "GList([1, 'a'])"]
    return out


UG: list = _mk(_gen_srcs())

# Instances of tuple subclasses (namedtuples): a separate pool, used by C03 for tuple / sequence-like targets
UX: list = _mk(["NTup(1, 'a')", "NPair(1, 2)", "NPair(True, 2)"])

# Instances of flag enumerations (a separate pool): the named single-bit members and the instances that iterating the
# class does NOT yield -- zero, composites, and (IntFlag, boundary KEEP) a value with an undeclared bit
UF: list = _mk(["FPerm.R", "FPerm.W", "FPerm.X", "FPerm(0)", "FPerm.R | FPerm.W", "FPerm.R | FPerm.W | FPerm.X",
                "IMode.A", "IMode.B", "IMode(0)", "IMode.A | IMode.B", "IMode(4)"])


def _callables() -> list:
    """Reference functions of a few callable signatures (vp.ty.callsig_function): members of their own callable type,
    definite non-members of every signature that permits a call they do not run."""
    sigs = [
        (),  # one signature per parameter kind, then one with a default and one with two parameters
        (("a", ty.PO, False, "int"),),
        (("a", ty.PK, False, "int"),),
        (("a", ty.KO, False, "str"),),
        (("args", ty.VA, False, "int"),),
        (("kw", ty.VK, False, "str"),),
        (("a", ty.PK, True, "int"),),
        (("a", ty.PK, False, "int"), ("b", ty.PK, True, "str")),
    ]
    return [Item(f"<def ({ty.callsig_params_text(ps)}) -> None>", ty.callsig_function(ps)) for ps in sigs]


UC: list = _callables()


def _eq_cross_type(a, b) -> bool:
    try:
        return type(a) is not type(b) and a == b and hash(a) == hash(b)
    except Exception:  # noqa: BLE001
        return False


def near_miss_pairs(t: Ty, rng, limit: int = 4, depth: int = 0) -> list:
    """(member, non-member) Item pairs for t where the non-member is the member with ONE (possibly nested) component
    replaced by a non-member of the component's type -- preferably one that is ==-equal to the original but of another
    type (0 / 0.0 / False, 1 / True / Num.ONE), else one of the same class, else anything."""
    k = t.kind
    out: list = []
    if k in ("Cls", "Lit", "NoneT", "NewType", "TypedDict", "TypeOf"):
        mem = members_of(t)
        if not mem:
            return []
        non = non_members_of(t)
        twins, same, rest = [], [], []
        for n in non:
            tw = [m for m in mem if _eq_cross_type(m.obj, n.obj)]
            if tw:
                twins.append((tw[0], n))
                continue
            sc = [m for m in mem if type(m.obj) is type(n.obj)]
            (same if sc else rest).append(((sc or mem)[0], n))
        out = twins[:2] + same[:1] + (rng.sample(rest, 1) if rest else [])
    elif k == "Union":
        for a in t.args[:4]:
            out.extend(near_miss_pairs(a, rng, 2, depth + 1))
    elif k in ("List", "Set", "FrozenSet", "VarTuple", "Seq", "Iter", "Coll"):
        wrapk = {"List": "list", "Set": "set", "FrozenSet": "frozenset", "VarTuple": "tuple", "Seq": "list",
                 "Iter": "list", "Coll": "list"}[k]
        for m, b in near_miss_pairs(t.args[0], rng, 3, depth + 1):
            if wrapk in ("set", "frozenset") and not (_hashable(m) and _hashable(b)):
                continue
            out.append((_wrap(wrapk, [m]), _wrap(wrapk, [b])))
            out.append((_wrap(wrapk, [m, m]), _wrap(wrapk, [m, b])))  # the original next to its near-miss twin
    elif k in ("Dict", "Map"):
        ks = [e for e in inhabitants(t.args[0], rng, 2, depth + 1) if _hashable(e)]
        vs = inhabitants(t.args[1], rng, 2, depth + 1)
        if ks and vs:
            for m, b in near_miss_pairs(t.args[1], rng, 2, depth + 1):
                out.append((Item("{" + f"{ks[0].src}: {m.src}" + "}", {ks[0].obj: m.obj}),
                            Item("{" + f"{ks[0].src}: {b.src}" + "}", {ks[0].obj: b.obj})))
            for m, b in near_miss_pairs(t.args[0], rng, 2, depth + 1):
                if _hashable(m) and _hashable(b):
                    out.append((Item("{" + f"{m.src}: {vs[0].src}" + "}", {m.obj: vs[0].obj}),
                                Item("{" + f"{b.src}: {vs[0].src}" + "}", {b.obj: vs[0].obj})))
    elif k == "Tuple":
        cols = [inhabitants(a, rng, 2, depth + 1) for a in t.args]
        if t.args and all(cols):
            base = [c[0] for c in cols]
            for i, a in enumerate(t.args):
                for m, b in near_miss_pairs(a, rng, 2, depth + 1)[:2]:
                    out.append((_wrap("tuple", base[:i] + [m] + base[i + 1:]), _wrap("tuple", base[:i] + [b] + base[i + 1:])))
    res, seen = [], set()
    for m, b in out:
        if b.src in seen:
            continue
        seen.add(b.src)
        if ty.member(m.obj, t) is True and ty.member(b.obj, t) is False:
            res.append((m, b))
    if len(res) > limit:
        res = res[: limit // 2] + rng.sample(res[limit // 2:], limit - limit // 2)
    return res


def members_of(t: Ty, pool=None) -> list:
    return [it for it in (pool or U) if ty.member(it.obj, t) is True]


def non_members_of(t: Ty, pool=None) -> list:
    return [it for it in (pool or U) if ty.member(it.obj, t) is False]


def subset_over_u(x: Ty, y: Ty, pool=None):
    """members(X) ⊆ members(Y) over U: returns the first counterexample Item or None."""
    for it in pool or U:
        if ty.member(it.obj, x) is True and ty.member(it.obj, y) is False:
            return it
    return None


def _wrap(kind: str, items) -> Item:
    items = list(items)
    if kind == "list":
        return Item("[" + ", ".join(i.src for i in items) + "]", [i.obj for i in items])
    if kind == "tuple":
        inner = ", ".join(i.src for i in items) + ("," if len(items) == 1 else "")
        return Item("(" + inner + ")", tuple(i.obj for i in items))
    if kind == "set":
        if not items:
            return Item("set()", set())
        return Item("{" + ", ".join(i.src for i in items) + "}", {i.obj for i in items})
    if kind == "frozenset":
        if not items:
            return Item("frozenset()", frozenset())
        return Item("frozenset({" + ", ".join(i.src for i in items) + "})", frozenset(i.obj for i in items))
    raise ValueError(kind)


def _hashable(it: Item) -> bool:
    try:
        hash(it.obj)
        return True
    except TypeError:
        return False


def inhabitants(t: Ty, rng, limit: int = 8, depth: int = 0) -> list:
    """Items with member(obj, t) is True, biased to boundaries. Deterministic given rng state."""
    k = t.kind
    out: list = []
    if k in ("Any", "Object"):
        out = [U_BY_SRC[s] for s in ("1", "'a'", "None", "[1]", "A()", "(1, 'a')", "True", "1.5")]
    elif k in ("Never", "Opaque", "Callable"):
        out = [U_BY_SRC["len"], U_BY_SRC["ident"]] if k == "Callable" else []
    elif k == "NoneT":
        out = [U_BY_SRC["None"]]
    elif k in ("Cls", "Lit", "NewType", "TypedDict", "TypeOf", "AtMost"):
        out = members_of(t)
    elif k == "Union":
        per = max(2, limit // max(1, len(t.args)))
        for a in t.args:
            out.extend(inhabitants(a, rng, per, depth + 1))
    elif k in ("List", "Set", "FrozenSet", "VarTuple", "Seq", "Iter", "Coll"):
        elems = inhabitants(t.args[0], rng, 6, depth + 1)
        wrapk = {"List": "list", "Set": "set", "FrozenSet": "frozenset", "VarTuple": "tuple", "Seq": "list",
                 "Iter": "list", "Coll": "list"}[k]
        if wrapk in ("set", "frozenset"):
            elems = [e for e in elems if _hashable(e)]
        out.append(_wrap(wrapk, []))
        for e in elems[:3]:
            out.append(_wrap(wrapk, [e]))
        if len(elems) >= 2:
            out.append(_wrap(wrapk, [elems[0], elems[-1]]))
            out.append(_wrap(wrapk, rng.sample(elems, min(3, len(elems)))))
        if k == "Seq":
            out += [_wrap("tuple", elems[:2])] + [i for i in (U_BY_SRC["'ab'"], U_BY_SRC["b'ab'"]) if ty.member(i.obj, t) is True]
        if k in ("Iter", "Coll"):
            hs = [e for e in elems if _hashable(e)][:2]
            out += [_wrap("set", hs), _wrap("tuple", elems[:1])]
    elif k in ("Dict", "Map"):
        ks = [e for e in inhabitants(t.args[0], rng, 4, depth + 1) if _hashable(e)]
        vs = inhabitants(t.args[1], rng, 4, depth + 1)
        out.append(Item("{}", {}))
        if ks and vs:
            out.append(Item("{" + f"{ks[0].src}: {vs[0].src}" + "}", {ks[0].obj: vs[0].obj}))
            if len(ks) > 1:
                out.append(Item("{" + f"{ks[0].src}: {vs[0].src}, {ks[-1].src}: {vs[-1].src}" + "}",
                                {ks[0].obj: vs[0].obj, ks[-1].obj: vs[-1].obj}))
    elif k == "Tuple":
        cols = [inhabitants(a, rng, 4, depth + 1) for a in t.args]
        if all(cols):
            out.append(_wrap("tuple", [c[0] for c in cols]))
            out.append(_wrap("tuple", [c[-1] for c in cols]))
            for _ in range(3):
                out.append(_wrap("tuple", [rng.choice(c) for c in cols]))
        if not t.args:
            out = [Item("()", ())]
    elif k == "MixTuple":
        prefix, star, suffix = t.args
        pc = [inhabitants(a, rng, 3, depth + 1) for a in prefix]
        sc = [inhabitants(a, rng, 3, depth + 1) for a in suffix]
        mids = inhabitants(star, rng, 3, depth + 1)
        if all(pc) and all(sc):
            for n in range(0, 4):
                if n and not mids:
                    break
                mid = [mids[i % len(mids)] for i in range(n)]
                out.append(_wrap("tuple", [rng.choice(c) for c in pc] + mid + [rng.choice(c) for c in sc]))
    elif k in ("SeqPat", "DictPat"):
        out = members_of(t)
    # filter (defensive): only definite members, de-duplicated by source
    seen = set()
    res = []
    for it in out:
        if it.src in seen:
            continue
        seen.add(it.src)
        if ty.member(it.obj, t) is True:
            res.append(it)
    if len(res) > limit:
        head = res[: limit // 2]
        rest = res[limit // 2:]
        res = head + rng.sample(rest, limit - len(head))
    return res
