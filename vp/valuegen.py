"""Generator of well-formed pyanalyze Values (shared by C14, C12, ...).

Only pyanalyze + stdlib.  Values are described by small JSON-able *specs* (nested lists) so that every
generated value can be recorded in a witness, rebuilt exactly by `Builder.build`, shown as a Python
expression (`to_expr`) and shrunk structurally (`children`).

    spec forms
    ["any", source]                       AnyValue(AnySource[source])
    ["never"]                             NO_RETURN_VALUE
    ["known", name]                       KnownValue(<hashable object from KNOWN_OBJECTS[name]>)
    ["known_u", literal_src, tag]         KnownValue(<unhashable object>); same (src, tag) -> same object inside
                                          one Builder, different tags -> equal but distinct objects
    ["typed", name] / ["typed_lit", name] TypedValue(TYPES[name]) / TypedValue(..., literal_only=True)
    ["newtype", name]                     NewTypeValue(NEWTYPES[name])
    ["generic", name, [spec...]]          GenericValue(TYPES[name], args)
    ["seq", name, [[is_many, spec]...]]   SequenceValue(TYPES[name], members)
    ["dict", [[k, v, is_many, is_required]...]]   DictIncompleteValue(dict, [KVPair...])
    ["typeddict", {key: [spec, required, readonly]}, extra|None, extra_readonly]   TypedDictValue
    ["callable", [[name, kind, default|None, annotation]...], ret, callable_name|None]   CallableValue(Signature.make)
    ["annotated", spec, [meta...]]        AnnotatedValue(value, metadata)   (raw constructor)
    ["subclass", spec, exactly]           SubclassValue(TypedValue|TypeVarValue)
    ["typevar", name]                     TypeVarValue from TYPEVARS (free / bounded / constrained)
    ["union", [spec...]]                  raw MultiValuedValue([...]) - may nest
    ["paramspec", name]                   TypeVarValue(PARAMSPECS[name], is_paramspec=True); only as the annotation of a
                                          callable parameter of kind "ps" (Callable[Concatenate[..., P], R])
    ["ps_args", name] / ["ps_kwargs", name]   ParamSpecArgsValue / ParamSpecKwargsValue (leaves)
    ["overloaded", [callable-spec...]]    CallableValue(OverloadedSignature([...]))
    ["alias", name, [spec...]]            TypeAliasValue(name, module, ALIASES[name], type_arguments)
    ["asynctask", spec]                   AsyncTaskIncompleteValue(Awaitable, value)
    ["method", attr_name, spec]           UnboundMethodValue(attr_name, Composite(value))
    callable parameter kinds: po pk va ko vk, + "ps" (PARAM_SPEC, annotation ["paramspec", n]) and "el" (ELLIPSIS)

    metadata forms (inside "annotated"): ["deprecated", msg] ["always_present"] ["definite", bool]
    ["literal_only"] ["check_gt", int|typevar-name] ["typeguard", spec] ["typeis", spec]
    ["param_typeguard", varname, spec] ["hasattr", attr_name, spec] ["noreturn_guard", varname, spec]
    ["hasattr_guard", varname, attr_name, spec]  or any Value spec.

Type-variable maps are {typevar-name: spec}; `Builder.build_map` turns them into {TypeVar: Value}.
"""
from __future__ import annotations

import collections.abc
import enum
from dataclasses import dataclass
from typing import Any, Iterable, Iterator, NewType, Optional, TypeVar, Union

from pyanalyze.extensions import CustomCheck, LiteralOnly
from typing_extensions import ParamSpec

from pyanalyze.signature import OverloadedSignature, ParameterKind, Signature, SigParameter
from pyanalyze.stacked_scopes import Composite
from pyanalyze.value import (
    NO_RETURN_VALUE,
    AlwaysPresentExtension,
    AnnotatedValue,
    AnySource,
    AnyValue,
    AsyncTaskIncompleteValue,
    CallableValue,
    CustomCheckExtension,
    DefiniteValueExtension,
    DeprecatedExtension,
    DictIncompleteValue,
    GenericValue,
    HasAttrExtension,
    HasAttrGuardExtension,
    KnownValue,
    KVPair,
    MultiValuedValue,
    NewTypeValue,
    NoReturnGuardExtension,
    ParameterTypeGuardExtension,
    ParamSpecArgsValue,
    ParamSpecKwargsValue,
    SequenceValue,
    SubclassValue,
    TypedDictEntry,
    TypedDictValue,
    TypedValue,
    TypeAlias,
    TypeAliasValue,
    TypeGuardExtension,
    TypeIsExtension,
    TypeVarValue,
    UnboundMethodValue,
    Value,
)

# ---------------------------------------------------------------------------
# the universe of Python objects the specs refer to by name


class C:
    """plain user class"""

    attr: int = 0


class D(C):
    pass


class Color(enum.Enum):
    RED = 1
    BLUE = 2


class FlakyEq:
    """__eq__ raises (and therefore no __hash__): KnownValue(FlakyEq()) is not even == itself."""

    def __eq__(self, other):
        raise IndentationError

    def __repr__(self):
        return "FlakyEq()"


def fn_one(x: int) -> str:
    return str(x)


def fn_two(x: int) -> str:
    return "-" + str(x)


UserId = NewType("UserId", int)
Name = NewType("Name", str)

T = TypeVar("T")
U = TypeVar("U")
B = TypeVar("B", bound=int)
BC = TypeVar("BC", bound=C)
K = TypeVar("K", int, str)

TYPES = {
    "int": int, "str": str, "float": float, "bool": bool, "bytes": bytes, "object": object,
    "list": list, "dict": dict, "set": set, "tuple": tuple, "type": type, "NoneType": type(None),
    "C": C, "D": D, "Color": Color, "frozenset": frozenset,
    "Sequence": collections.abc.Sequence, "Mapping": collections.abc.Mapping,
    "Iterable": collections.abc.Iterable, "Awaitable": collections.abc.Awaitable,
}
TYPE_EXPR = {
    "NoneType": "type(None)", "C": "valuegen.C", "D": "valuegen.D", "Color": "valuegen.Color",
    "Sequence": "collections.abc.Sequence", "Mapping": "collections.abc.Mapping",
    "Iterable": "collections.abc.Iterable", "Awaitable": "collections.abc.Awaitable",
}
NEWTYPES = {"UserId": UserId, "Name": Name}
KNOWN_OBJECTS = {
    "1": 1, "True": True, "1.0": 1.0, "0": 0, "False": False, "2": 2, "'x'": "x", "''": "", "b'x'": b"x",
    "None": None, "(1, 2)": (1, 2), "()": (), "int": int, "str": str, "C": C, "len": len,
    "fn_one": fn_one, "fn_two": fn_two, "Color.RED": Color.RED, "Color.BLUE": Color.BLUE,
    "frozenset({1})": frozenset({1}), "1j": 1j, "...": ...,
    "3": 3, "4": 4, "5": 5, "6": 6, "7": 7, "8": 8, "9": 9, "'y'": "y", "(1.0, 2)": (1.0, 2), "(True, 2)": (True, 2),
}
KNOWN_EXPR = {"C": "valuegen.C", "fn_one": "valuegen.fn_one", "fn_two": "valuegen.fn_two",
              "Color.RED": "valuegen.Color.RED", "Color.BLUE": "valuegen.Color.BLUE"}
UNHASHABLE_SRC = ["[1]", "[]", "{'a': 1}", "{1, 2}", "[1, [2]]", "{}", "bytearray(b'x')", "[1.0]", "[True]", "FlakyEq()",
                  # hashable TYPE, unhashable content
                  "([], 1)", "(1, [2])", "('a', 'b')", "(1, {})"]
CALLABLES = {"fn_one": fn_one, "fn_two": fn_two, "len": len}

# name -> (TypeVar, bound spec | None, constraint specs)
TYPEVARS = {
    "T": (T, None, ()),
    "U": (U, None, ()),
    "B": (B, ["typed", "int"], ()),
    "BC": (BC, ["typed", "C"], ()),
    "K": (K, None, (["typed", "int"], ["typed", "str"])),
}
TYPEVAR_BY_OBJ = {tv: name for name, (tv, _, _) in TYPEVARS.items()}

# ParamSpecs are kept apart from TYPEVARS: a map may bind one only to a callable, Any or another ParamSpec
P = ParamSpec("P")
Q = ParamSpec("Q")
PARAMSPECS = {"P": P, "Q": Q}

# type aliases (PEP 695 `type ListOf[AT] = list[AT]`); their own parameters are never in a generated map's domain
AT = TypeVar("AT")
AU = TypeVar("AU")


def _make_alias(make_value, params) -> TypeAlias:
    return TypeAlias(make_value, lambda: params)


# name -> (TypeAlias, number of type parameters)
ALIASES = {
    "IntOrStr": (_make_alias(lambda: TypedValue(int) | TypedValue(str), ()), 0),
    "ListOf": (_make_alias(lambda: GenericValue(list, [TypeVarValue(AT)]), (AT,)), 1),
    "PairOf": (_make_alias(lambda: SequenceValue(tuple, [(False, TypeVarValue(AT)), (False, TypeVarValue(AU))]), (AT, AU)), 2),
}

ANY_SOURCES = ["explicit", "unannotated", "inference", "generic_argument", "error", "unreachable"]
KINDS = {
    "po": ParameterKind.POSITIONAL_ONLY, "pk": ParameterKind.POSITIONAL_OR_KEYWORD,
    "va": ParameterKind.VAR_POSITIONAL, "ko": ParameterKind.KEYWORD_ONLY, "vk": ParameterKind.VAR_KEYWORD,
    "ps": ParameterKind.PARAM_SPEC, "el": ParameterKind.ELLIPSIS,
}


@dataclass(frozen=True)
class GreaterThan(CustomCheck):
    """Hashable custom check that can be generic over a TypeVar (docs/typesystem.md example)."""

    value: Union[int, TypeVar]

    def walk_values(self) -> Iterable[Value]:
        if isinstance(self.value, TypeVar):
            yield TypeVarValue(self.value)

    def substitute_typevars(self, typevars) -> "GreaterThan":
        if isinstance(self.value, TypeVar) and self.value in typevars:
            v = typevars[self.value]
            if isinstance(v, KnownValue) and isinstance(v.val, int):
                return GreaterThan(v.val)
            return GreaterThan(-abs(hash(self.value.__name__)) % 1000 - 1)  # "specified" (injective per variable)
        return self


# ---------------------------------------------------------------------------
# building


class Builder:
    """Materialises specs.  One Builder = one identity space for unhashable literals."""

    def __init__(self) -> None:
        self._unhashable: dict = {}
        self._slots: list = []

    def unhashable(self, src: str, tag: str) -> Any:
        key = (src, tag)
        if key not in self._unhashable:
            self._unhashable[key] = eval(src, {"__builtins__": {"bytearray": bytearray}, "FlakyEq": FlakyEq})
        return self._unhashable[key]

    def build(self, spec) -> Value:
        kind = spec[0]
        b = self.build
        if kind == "any":
            return AnyValue(AnySource[spec[1]])
        if kind == "never":
            return NO_RETURN_VALUE
        if kind == "known":
            return KnownValue(KNOWN_OBJECTS[spec[1]])
        if kind == "known_u":
            return KnownValue(self.unhashable(spec[1], spec[2]))
        if kind == "typed":
            return TypedValue(TYPES[spec[1]])
        if kind == "typed_lit":
            return TypedValue(TYPES[spec[1]], literal_only=True)
        if kind == "newtype":
            return NewTypeValue(NEWTYPES[spec[1]])
        if kind == "generic":
            return GenericValue(TYPES[spec[1]], [b(s) for s in spec[2]])
        if kind == "seq":
            return SequenceValue(TYPES[spec[1]], [(bool(m), b(s)) for m, s in spec[2]])
        if kind == "dict":
            return DictIncompleteValue(
                dict, [KVPair(b(k), b(v), bool(many), bool(req)) for k, v, many, req in spec[1]]
            )
        if kind == "typeddict":
            items = {k: TypedDictEntry(b(s), required=bool(req), readonly=bool(ro)) for k, (s, req, ro) in spec[1].items()}
            extra = b(spec[2]) if spec[2] is not None else None
            return TypedDictValue(items, extra_keys=extra, extra_keys_readonly=bool(spec[3]))
        if kind == "callable":
            return CallableValue(self.build_signature(spec))
        if kind == "overloaded":
            return CallableValue(OverloadedSignature([self.build_signature(s) for s in spec[1]]))
        if kind == "paramspec":
            return TypeVarValue(PARAMSPECS[spec[1]], is_paramspec=True)
        if kind == "ps_args":
            return ParamSpecArgsValue(PARAMSPECS[spec[1]])
        if kind == "ps_kwargs":
            return ParamSpecKwargsValue(PARAMSPECS[spec[1]])
        if kind == "alias":
            alias, nparams = ALIASES[spec[1]]
            if len(spec[2]) not in (0, nparams):
                raise ValueError(f"alias {spec[1]} takes {nparams} arguments")
            return TypeAliasValue(spec[1], __name__, alias, tuple(b(s) for s in spec[2]))
        if kind == "asynctask":
            return AsyncTaskIncompleteValue(TYPES["Awaitable"], b(spec[1]))
        if kind == "method":
            return UnboundMethodValue(spec[1], Composite(b(spec[2])))
        if kind == "_v":  # a ready-made value (see build_shell)
            return self._slots[spec[1]]
        if kind == "annotated":
            return AnnotatedValue(b(spec[1]), [self.build_meta(m) for m in spec[2]])
        if kind == "subclass":
            return SubclassValue(b(spec[1]), exactly=bool(spec[2]))
        if kind == "typevar":
            tv, bound, constraints = TYPEVARS[spec[1]]
            return TypeVarValue(
                tv, bound=(b(bound) if bound is not None else None), constraints=tuple(b(c) for c in constraints)
            )
        if kind == "union":
            return MultiValuedValue([b(s) for s in spec[1]])
        raise ValueError(f"unknown spec {spec!r}")

    def build_signature(self, spec) -> Signature:
        b = self.build
        params = []
        for name, k, d, a in spec[1]:
            if k == "ps" and a[0] not in ("paramspec", "_v"):
                raise ValueError("a PARAM_SPEC parameter is annotated with its ParamSpec")
            params.append(SigParameter(name, KINDS[k], default=(b(d) if d is not None else None), annotation=b(a)))
        cal = CALLABLES[spec[3]] if spec[3] is not None else None
        return Signature.make(params, b(spec[2]), callable=cal)

    def build_shell(self, spec, child_values) -> Value:
        """The constructor of `spec` (raw, as `build` applies it) over ready-made direct sub-values, given in the
        order of children(spec)."""
        self._slots = list(child_values)
        try:
            return self.build(with_children(spec, [["_v", i] for i in range(len(self._slots))]))
        finally:
            self._slots = []

    def build_meta(self, m):
        kind = m[0]
        if kind == "deprecated":
            return DeprecatedExtension(m[1])
        if kind == "always_present":
            return AlwaysPresentExtension()
        if kind == "definite":
            return DefiniteValueExtension(bool(m[1]))
        if kind == "literal_only":
            return CustomCheckExtension(LiteralOnly())
        if kind == "check_gt":
            return CustomCheckExtension(GreaterThan(TYPEVARS[m[1]][0] if isinstance(m[1], str) else m[1]))
        if kind == "typeguard":
            return TypeGuardExtension(self.build(m[1]))
        if kind == "typeis":
            return TypeIsExtension(self.build(m[1]))
        if kind == "param_typeguard":
            return ParameterTypeGuardExtension(m[1], self.build(m[2]))
        if kind == "hasattr":
            return HasAttrExtension(KnownValue(m[1]), self.build(m[2]))
        if kind == "noreturn_guard":
            return NoReturnGuardExtension(m[1], self.build(m[2]))
        if kind == "hasattr_guard":
            return HasAttrGuardExtension(m[1], KnownValue(m[2]), self.build(m[3]))
        return self.build(m)

    def build_map(self, mapspec) -> dict:
        return {
            (TYPEVARS[name][0] if name in TYPEVARS else PARAMSPECS[name]): self.build(s) for name, s in mapspec.items()
        }


META_KINDS = {"deprecated", "always_present", "definite", "literal_only", "check_gt", "typeguard", "typeis",
              "param_typeguard", "hasattr", "noreturn_guard", "hasattr_guard"}


# ---------------------------------------------------------------------------
# structure of specs (independent of pyanalyze's own walkers)


def children(spec) -> list:
    """Direct sub-specs that are Value specs."""
    kind = spec[0]
    if kind in ("generic", "union"):
        return list(spec[2] if kind == "generic" else spec[1])
    if kind == "seq":
        return [s for _, s in spec[2]]
    if kind == "dict":
        return [x for k, v, _, _ in spec[1] for x in (k, v)]
    if kind == "typeddict":
        out = [s for s, _, _ in spec[1].values()]
        if spec[2] is not None:
            out.append(spec[2])
        return out
    if kind == "callable":
        return [a for _, _, _, a in spec[1]] + [spec[2]]
    if kind == "overloaded":
        return [c for s in spec[1] for c in children(s)]
    if kind == "alias":
        return list(spec[2])
    if kind == "asynctask":
        return [spec[1]]
    if kind == "method":
        return [spec[2]]
    if kind == "annotated":
        out = [spec[1]]
        for m in spec[2]:
            if m[0] in ("typeguard", "typeis"):
                out.append(m[1])
            elif m[0] in ("param_typeguard", "hasattr", "noreturn_guard"):
                out.append(m[2])
            elif m[0] == "hasattr_guard":
                out.append(m[3])
            elif m[0] not in META_KINDS:
                out.append(m)
        return out
    if kind == "subclass":
        return [spec[1]]
    return []


def with_children(spec, new) -> list:
    """`spec` with its direct sub-specs (in the order of children(spec)) replaced by `new`."""
    kind = spec[0]
    new = list(new)
    if kind == "generic":
        return ["generic", spec[1], new]
    if kind == "union":
        return ["union", new]
    if kind == "seq":
        return ["seq", spec[1], [[m, n] for (m, _), n in zip(spec[2], new)]]
    if kind == "dict":
        it = iter(new)
        return ["dict", [[next(it), next(it), many, req] for _, _, many, req in spec[1]]]
    if kind == "typeddict":
        it = iter(new)
        items = {k: [next(it), req, ro] for k, (_, req, ro) in spec[1].items()}
        extra = next(it) if spec[2] is not None else None
        return ["typeddict", items, extra, spec[3]]
    if kind == "callable":
        params = [[n, k, d, a] for (n, k, d, _), a in zip(spec[1], new)]
        return ["callable", params, new[-1], spec[3]]
    if kind == "overloaded":
        sigs, at = [], 0
        for s in spec[1]:
            n = len(s[1]) + 1
            sigs.append(with_children(s, new[at:at + n]))
            at += n
        return ["overloaded", sigs]
    if kind == "alias":
        return ["alias", spec[1], new]
    if kind == "asynctask":
        return ["asynctask", new[0]]
    if kind == "method":
        return ["method", spec[1], new[0]]
    if kind == "annotated":
        it = iter(new)
        inner = next(it)
        metas = []
        for m in spec[2]:
            if m[0] in ("typeguard", "typeis"):
                metas.append([m[0], next(it)])
            elif m[0] in ("param_typeguard", "hasattr", "noreturn_guard"):
                metas.append([m[0], m[1], next(it)])
            elif m[0] == "hasattr_guard":
                metas.append([m[0], m[1], m[2], next(it)])
            elif m[0] not in META_KINDS:
                metas.append(next(it))
            else:
                metas.append(m)
        return ["annotated", inner, metas]
    if kind == "subclass":
        return ["subclass", new[0], spec[2]]
    return spec


def walk_spec(spec) -> Iterator:
    yield spec
    for c in children(spec):
        yield from walk_spec(c)


def spec_typevars(spec) -> set:
    """Names of the type variables that occur in the value described by `spec` (by construction)."""
    out = set()
    for s in walk_spec(spec):
        if s[0] in ("typevar", "paramspec"):
            out.add(s[1])
        elif s[0] == "annotated":
            for m in s[2]:
                if m[0] == "check_gt" and isinstance(m[1], str):
                    out.add(m[1])
    return out


def spec_classes(spec) -> set:
    return {s[0] for s in walk_spec(spec)}


def spec_size(spec) -> int:
    return sum(1 for _ in walk_spec(spec))


def skeleton(spec, depth: int = 2) -> str:
    """Coarse structural description: constructor kinds down to `depth`; no names, no literals."""
    kind = spec[0]
    name = {
        "any": "Any", "never": "Never", "known": "Known", "known_u": "Known[unhashable]", "typed": "Typed",
        "typed_lit": "Typed[literal_only]", "newtype": "NewType", "generic": "Generic", "seq": "Sequence",
        "dict": "DictIncomplete", "typeddict": "TypedDict", "callable": "Callable", "annotated": "Annotated",
        "subclass": "Subclass", "typevar": "TypeVar", "union": "Union",
        "paramspec": "ParamSpec", "ps_args": "ParamSpecArgs", "ps_kwargs": "ParamSpecKwargs",
        "overloaded": "Callable[overloaded]", "alias": "TypeAlias", "asynctask": "AsyncTask", "method": "UnboundMethod",
        "_v": "value",
    }[kind]
    if kind == "any" and spec[1] == "unreachable":
        name = "Any[unreachable]"
    if kind == "typevar":
        _, bound, cons = TYPEVARS[spec[1]]
        name += "[bound]" if bound is not None else "[constrained]" if cons else ""
    if kind == "seq" and any(m for m, _ in spec[2]):
        name += "[many]"
    if depth <= 1:
        return name
    kids = children(spec)
    if not kids:
        return name
    inner = [skeleton(c, depth - 1) for c in kids]
    if kind != "union":
        inner = sorted(set(inner))
    return f"{name}({','.join(inner)})"


def to_expr(spec) -> str:
    """Python expression (names from pyanalyze.value / pyanalyze.signature / vp.valuegen) building the value."""
    kind = spec[0]
    e = to_expr
    if kind == "any":
        return f"AnyValue(AnySource.{spec[1]})"
    if kind == "never":
        return "NO_RETURN_VALUE"
    if kind == "known":
        return f"KnownValue({KNOWN_EXPR.get(spec[1], spec[1])})"
    if kind == "known_u":
        return f"KnownValue({'valuegen.' if spec[1] == 'FlakyEq()' else ''}{spec[1]})"
    if kind in ("typed", "typed_lit"):
        t = TYPE_EXPR.get(spec[1], spec[1])
        return f"TypedValue({t}{', literal_only=True' if kind == 'typed_lit' else ''})"
    if kind == "newtype":
        return f"NewTypeValue(valuegen.{spec[1]})"
    if kind == "generic":
        return f"GenericValue({TYPE_EXPR.get(spec[1], spec[1])}, [{', '.join(e(s) for s in spec[2])}])"
    if kind == "seq":
        return f"SequenceValue({TYPE_EXPR.get(spec[1], spec[1])}, [{', '.join(f'({bool(m)}, {e(s)})' for m, s in spec[2])}])"
    if kind == "dict":
        pairs = ", ".join(f"KVPair({e(k)}, {e(v)}, {bool(many)}, {bool(req)})" for k, v, many, req in spec[1])
        return f"DictIncompleteValue(dict, [{pairs}])"
    if kind == "typeddict":
        items = ", ".join(f"{k!r}: TypedDictEntry({e(s)}, required={bool(r)}, readonly={bool(ro)})" for k, (s, r, ro) in spec[1].items())
        extra = f", extra_keys={e(spec[2])}" if spec[2] is not None else ""
        return f"TypedDictValue({{{items}}}{extra})"
    if kind == "callable":
        return f"CallableValue({_sig_expr(spec)})"
    if kind == "overloaded":
        return f"CallableValue(OverloadedSignature([{', '.join(_sig_expr(s) for s in spec[1])}]))"
    if kind == "paramspec":
        return f"TypeVarValue(valuegen.{spec[1]}, is_paramspec=True)"
    if kind == "ps_args":
        return f"ParamSpecArgsValue(valuegen.{spec[1]})"
    if kind == "ps_kwargs":
        return f"ParamSpecKwargsValue(valuegen.{spec[1]})"
    if kind == "alias":
        args = "".join(e(s) + ", " for s in spec[2])
        return f"TypeAliasValue({spec[1]!r}, 'vp.valuegen', valuegen.ALIASES[{spec[1]!r}][0], ({args}))"
    if kind == "asynctask":
        return f"AsyncTaskIncompleteValue(collections.abc.Awaitable, {e(spec[1])})"
    if kind == "method":
        return f"UnboundMethodValue({spec[1]!r}, Composite({e(spec[2])}))"
    if kind == "annotated":
        return f"AnnotatedValue({e(spec[1])}, [{', '.join(meta_expr(m) for m in spec[2])}])"
    if kind == "subclass":
        return f"SubclassValue({e(spec[1])}, exactly={bool(spec[2])})"
    if kind == "typevar":
        tv, bound, cons = TYPEVARS[spec[1]]
        extra = f", bound={e(bound)}" if bound is not None else ""
        if cons:
            extra += f", constraints=({', '.join(e(c) for c in cons)},)"
        return f"TypeVarValue(valuegen.{spec[1]}{extra})"
    if kind == "union":
        return f"MultiValuedValue([{', '.join(e(s) for s in spec[1])}])"
    raise ValueError(spec)


def _sig_expr(spec) -> str:
    e = to_expr
    ps = ", ".join(
        f"SigParameter({n!r}, ParameterKind.{KINDS[k].name}, default={e(d) if d is not None else None}, annotation={e(a)})"
        for n, k, d, a in spec[1]
    )
    cal = f", callable=valuegen.CALLABLES[{spec[3]!r}]" if spec[3] is not None else ""
    return f"Signature.make([{ps}], {e(spec[2])}{cal})"


def meta_expr(m) -> str:
    kind = m[0]
    if kind == "deprecated":
        return f"DeprecatedExtension({m[1]!r})"
    if kind == "always_present":
        return "AlwaysPresentExtension()"
    if kind == "definite":
        return f"DefiniteValueExtension({bool(m[1])})"
    if kind == "literal_only":
        return "CustomCheckExtension(LiteralOnly())"
    if kind == "check_gt":
        return f"CustomCheckExtension(valuegen.GreaterThan({'valuegen.' + m[1] if isinstance(m[1], str) else m[1]}))"
    if kind == "typeguard":
        return f"TypeGuardExtension({to_expr(m[1])})"
    if kind == "typeis":
        return f"TypeIsExtension({to_expr(m[1])})"
    if kind == "param_typeguard":
        return f"ParameterTypeGuardExtension({m[1]!r}, {to_expr(m[2])})"
    if kind == "hasattr":
        return f"HasAttrExtension(KnownValue({m[1]!r}), {to_expr(m[2])})"
    if kind == "noreturn_guard":
        return f"NoReturnGuardExtension({m[1]!r}, {to_expr(m[2])})"
    if kind == "hasattr_guard":
        return f"HasAttrGuardExtension({m[1]!r}, KnownValue({m[2]!r}), {to_expr(m[3])})"
    return to_expr(m)


def map_expr(mapspec) -> str:
    return "{" + ", ".join(f"valuegen.{k}: {to_expr(v)}" for k, v in sorted(mapspec.items())) + "}"


# ---------------------------------------------------------------------------
# the fixed core pool: every class of the property's list, the known equal-but-distinct corner cases

_I, _S, _F, _N = ["typed", "int"], ["typed", "str"], ["typed", "float"], ["known", "None"]
_T, _U = ["typevar", "T"], ["typevar", "U"]

_DIGITS = [["known", str(i)] for i in range(10)]
_BIG10 = ["union", list(_DIGITS)]

CORE_POOL = [
    # Any / Never
    ["any", "explicit"], ["any", "unreachable"], ["never"],
    # literals: 1 / True / 1.0 are == in Python but distinct values
    ["known", "1"], ["known", "True"], ["known", "1.0"], ["known", "'x'"], _N, ["known", "(1, 2)"],
    ["known", "int"], ["known", "fn_one"], ["known", "Color.RED"],
    # unhashable literals; "a"/"b" are equal but distinct objects
    ["known_u", "[1]", "a"], ["known_u", "[1]", "b"], ["known_u", "{'a': 1}", "a"], ["known_u", "{1, 2}", "a"],
    ["known_u", "FlakyEq()", "a"],
    # typed
    _I, _S, _F, ["typed", "bool"], ["typed", "C"], ["typed", "list"], ["typed_lit", "str"],
    ["newtype", "UserId"],
    # generic
    ["generic", "list", [_I]], ["generic", "list", [["union", [_I, _S]]]], ["generic", "list", [["union", [_S, _I]]]],
    ["generic", "dict", [_S, _I]], ["generic", "list", [_T]],
    # sequences (is_many members)
    ["seq", "tuple", [[False, _I], [False, _S]]], ["seq", "list", [[False, ["known", "1"]], [True, _S]]],
    ["seq", "tuple", [[True, _T]]], ["seq", "set", [[False, ["known_u", "[1]", "a"]]]],
    # dict incomplete
    ["dict", [[["known", "'x'"], _I, False, True]]], ["dict", [[_S, _T, True, False]]],
    # TypedDict: same keys, different value types (same hash by design)
    ["typeddict", {"a": [_I, True, False]}, None, False], ["typeddict", {"a": [_S, True, False]}, None, False],
    ["typeddict", {"a": [_I, True, False], "b": [_T, False, True]}, _S, False],
    # callables: the two differ only in the runtime callable they describe
    ["callable", [["x", "pk", None, _I]], _S, "fn_one"], ["callable", [["x", "pk", None, _I]], _S, "fn_two"],
    ["callable", [["x", "po", None, _T], ["k", "ko", ["known", "1"], _I]], _T, None],
    # annotated
    ["annotated", _I, [["deprecated", "old"]]], ["annotated", ["union", [_I, _S]], [["definite", True]]],
    ["annotated", ["union", [_T, _I]], [["deprecated", "old"]]],
    ["annotated", _T, [["param_typeguard", "x", _T], ["check_gt", "U"]]], ["annotated", _S, [["literal_only"]]],
    ["annotated", ["typed", "bool"], [["typeis", _I]]], ["annotated", ["typed", "bool"], [["typeguard", _T]]],
    # subclass
    ["subclass", _I, False], ["subclass", _T, False], ["subclass", ["typed", "C"], True],
    # type variables: free, bounded, constrained
    _T, ["typevar", "B"], ["typevar", "K"],
    # unions built with the raw constructor, nested
    ["union", [_I, _S]], ["union", [_S, _I]], ["union", [["union", [_I, _S]], _N]],
    ["union", [["known", "1"], ["known", "'x'"]]], ["union", [_T, _I]], ["union", [["known_u", "[1]", "a"], _S]],
    ["union", [["annotated", ["union", [_I, _N]], [["deprecated", "old"]]], _S]],
    # unions of >= 10 members: MultiValuedValue switches to an index of its literal members
    _BIG10, ["union", _DIGITS[:9] + [["known", "True"]]], ["union", [["known", "1"], ["known", "True"]] + _DIGITS[2:10]],
    ["union", _DIGITS[:9] + [["generic", "list", [_I]]]], ["union", _DIGITS[:9] + [["seq", "tuple", [[True, _I]]]]],
    ["union", _DIGITS[:9] + [["known_u", "[1]", "a"]]], ["union", _DIGITS[:9] + [_S, _T]],
    ["union", _DIGITS[:9] + [["typeddict", {"a": [_I, True, False]}, None, False]]],
    # literals of a hashable type with unhashable / type-differing content
    ["known_u", "([], 1)", "a"], ["known_u", "('a', 'b')", "a"], ["known", "(1.0, 2)"], ["known", "(True, 2)"],
    ["known", "0"], ["known", "9"],
]

CORE_MAPS = [
    {"T": _I},
    {"T": _S, "U": _I},
    {"T": ["union", [_I, _S]]},
    {"T": ["generic", "list", [_U]]},
    {"T": ["never"]},
    {"T": ["annotated", _S, [["always_present"]]]},
    {"T": ["known", "1"], "B": ["typed", "bool"], "K": _S},
    {"U": ["known_u", "[1]", "m"]},
    {"T": ["any", "explicit"], "U": ["typed", "C"], "BC": ["typed", "D"]},
]


# ---------------------------------------------------------------------------
# random specs

_LEAF_TYPED = ["int", "str", "float", "bool", "bytes", "object", "C", "D", "Color", "list", "dict", "type", "NoneType"]
_KNOWN = list(KNOWN_OBJECTS)
_TV = list(TYPEVARS)


def random_leaf(rng, typevars: bool = True):
    r = rng.random()
    if r < 0.22:
        return ["typed", rng.choice(_LEAF_TYPED)]
    if r < 0.47:
        return ["known", rng.choice(_KNOWN)]
    if r < 0.57:
        return ["known_u", rng.choice(UNHASHABLE_SRC), rng.choice("abc")]
    if r < 0.68 and typevars:
        return ["typevar", rng.choice(_TV)]
    if r < 0.74:
        return ["any", rng.choice(ANY_SOURCES)]
    if r < 0.77:
        return ["never"]
    if r < 0.82:
        return ["newtype", rng.choice(list(NEWTYPES))]
    if r < 0.85:
        return ["typed_lit", "str"]
    if r < 0.90:
        return ["subclass", ["typed", rng.choice(["int", "str", "C", "D"])], rng.random() < 0.3]
    return ["typed", rng.choice(["int", "str"])]


def random_meta(rng, depth, typevars, wide: bool = False):
    sub = lambda: random_spec(rng, max(0, depth - 1), typevars, wide)  # noqa: E731
    if wide and rng.random() < 0.25:
        if rng.random() < 0.5:
            return ["noreturn_guard", rng.choice(["x", "y"]), sub()]
        return ["hasattr_guard", rng.choice(["x", "y"]), rng.choice(["attr", "name"]), sub()]
    r = rng.choice([0, 1, 2, 3, 4, 7, 8, 9])  # TypeGuard/TypeIs: see random_spec (only ever wrap bool)
    if r == 0:
        return ["deprecated", rng.choice(["old", "gone"])]
    if r == 1:
        return ["always_present"]
    if r == 2:
        return ["definite", rng.random() < 0.5]
    if r == 3:
        return ["literal_only"]
    if r == 4:
        return ["check_gt", rng.choice(["T", "U"]) if typevars and rng.random() < 0.5 else rng.randrange(3)]
    if r == 5:
        return ["typeguard", sub()]
    if r == 6:
        return ["typeis", sub()]
    if r == 7:
        return ["param_typeguard", rng.choice(["x", "y"]), sub()]
    if r == 8:
        return ["hasattr", rng.choice(["attr", "name"]), sub()]
    return ["known", rng.choice(["1", "'x'"])]


def _random_callable_wide(rng, sub, typevars):
    """Callable with any number of parameters per kind, optionally ending in a ParamSpec (Concatenate) or `...`."""
    tail = rng.random()
    params = []
    if tail < 0.2:  # Callable[Concatenate[X, ..., P], R] / Callable[..., R]: required positional-only prefix only
        for _ in range(rng.randrange(0, 3)):
            params.append([f"p{len(params)}", "po", None, sub()])
        if tail < 0.13:
            params.append([f"p{len(params)}", "ps", None, ["paramspec", rng.choice(["P", "P", "Q"])]])
        else:
            params.append([f"p{len(params)}", "el", None, ["any", "explicit"]])
        return ["callable", params, sub(), None]
    counts = [("po", rng.choice([0, 0, 1, 2])), ("pk", rng.choice([0, 1, 1, 2])), ("va", int(rng.random() < 0.3)),
              ("ko", rng.choice([0, 0, 1, 2])), ("vk", int(rng.random() < 0.3))]
    seen_default = False
    for k, n in counts:
        for _ in range(n):
            default = None
            if k in ("po", "pk"):
                if seen_default or rng.random() < 0.3:
                    default = ["known", rng.choice(["1", "None"])]
                    seen_default = True
            elif k == "ko" and rng.random() < 0.4:
                default = ["known", "1"]
            ann = sub()
            if (k == "va" and ann[0] == "seq") or (k == "vk" and ann[0] == "typeddict"):
                ann = random_leaf(rng, typevars)
            params.append([f"p{len(params)}", k, default, ann])
    return ["callable", params, sub(), rng.choice([None, None, "fn_one", "fn_two", "len"])]


def _random_wide(rng, depth, typevars):
    """The constructors / nestings random_spec's narrow grammar never builds."""
    sub = lambda: random_spec(rng, depth - 1, typevars, True)  # noqa: E731
    r = rng.randrange(8)
    if r == 0:  # Type[...] over any TypedValue subclass (or a type variable)
        for _ in range(4):
            s = sub()
            if _typed_or_tv(s):
                return ["subclass", s, rng.random() < 0.3]
        return ["subclass", ["generic", "list", [sub()]], rng.random() < 0.3]
    if r == 1:
        name = rng.choice(list(ALIASES))
        n = ALIASES[name][1]
        return ["alias", name, [sub() for _ in range(n)] if rng.random() < 0.8 else []]
    if r == 2:
        return ["asynctask", sub()]
    if r == 3:
        # Composite.__eq__ applies a bare == to the value it holds: not over a literal that is not == itself
        return ["method", rng.choice(["append", "copy", "nope"]), without_flaky(sub())]
    if r == 4:
        return ["overloaded", [_random_callable_wide(rng, sub, typevars) for _ in range(rng.randrange(2, 4))]]
    if r in (5, 6):
        return _random_callable_wide(rng, sub, typevars)
    return [rng.choice(["ps_args", "ps_kwargs"]), rng.choice(["P", "Q"])]


def random_spec(rng, depth: int = 2, typevars: bool = True, wide: bool = False):
    """A random well-formed Value spec of nesting depth <= depth.  wide=True adds Type[...] over every TypedValue
    subclass, type aliases with arguments, async tasks, bound methods, overloaded / ParamSpec / `...` callables with
    several parameters per kind, NoReturnGuard / HasAttrGuard metadata (the default grammar is unchanged)."""
    if wide and depth > 0 and rng.random() < 0.3:
        return _random_wide(rng, depth, typevars)
    if depth <= 0 or rng.random() < 0.18:
        return random_leaf(rng, typevars)
    sub = lambda: random_spec(rng, depth - 1, typevars, wide)  # noqa: E731
    r = rng.randrange(11)
    if r == 0:
        return ["generic", rng.choice(["list", "set", "frozenset", "Sequence", "Iterable"]), [sub()]]
    if r == 1:
        return ["generic", rng.choice(["dict", "Mapping"]), [sub(), sub()]]
    if r == 2:
        n = rng.randrange(0, 4)
        return ["seq", rng.choice(["tuple", "list", "set"]), [[rng.random() < 0.3, sub()] for _ in range(n)]]
    if r == 3:
        n = rng.randrange(0, 3)
        return ["dict", [[sub(), sub(), rng.random() < 0.3, rng.random() < 0.7] for _ in range(n)]]
    if r == 4:
        keys = rng.sample(["a", "b", "c"], rng.randrange(0, 4))
        items = {k: [sub(), rng.random() < 0.7, rng.random() < 0.2] for k in sorted(keys)}
        return ["typeddict", items, sub() if rng.random() < 0.25 else None, rng.random() < 0.3]
    if r == 5:
        params = []
        kinds = sorted(rng.sample(["po", "pk", "va", "ko", "vk"], rng.randrange(0, 4)), key=["po", "pk", "va", "ko", "vk"].index)
        seen_default = False
        for i, k in enumerate(kinds):
            default = None
            if k in ("po", "pk"):
                if seen_default or rng.random() < 0.3:
                    default = ["known", rng.choice(["1", "None"])]
                    seen_default = True
            elif k == "ko" and rng.random() < 0.4:
                default = ["known", "1"]
            ann = sub()
            # Signature.make expands *args: tuple[...] / **kwargs: TypedDict into several parameters
            if (k == "va" and ann[0] == "seq") or (k == "vk" and ann[0] == "typeddict"):
                ann = random_leaf(rng, typevars)
            params.append([f"p{i}", k, default, ann])
        return ["callable", params, sub(), rng.choice([None, None, "fn_one", "fn_two", "len"])]
    if r == 6:
        if rng.random() < 0.2:
            # annotations.py builds return guards only as Annotated[bool, TypeGuard[...] | TypeIs[...]]
            return ["annotated", ["typed", "bool"], [[rng.choice(["typeguard", "typeis"]), sub()]]]
        inner = sub()
        if inner[0] == "annotated":  # pyanalyze flattens nested Annotated (annotate_value)
            inner = inner[1]
        metas = []
        for _ in range(rng.randrange(1, 3)):
            m = random_meta(rng, depth, typevars, wide)
            # annotate_value() never keeps two metadata items that compare equal; two different specs can build equal
            # items (hasattr name [1.0] / hasattr name [1]: KnownValue.__eq__ compares unhashable literals with ==)
            if not any(_builds_equal(m, m2) for m2 in metas):
                metas.append(m)
        return ["annotated", inner, metas]
    if r == 7:
        if typevars and rng.random() < 0.4:
            return ["subclass", ["typevar", rng.choice(_TV)], False]
        return ["subclass", ["typed", rng.choice(["int", "str", "C", "D", "object"])], rng.random() < 0.3]
    # unions (raw constructor; members pairwise different specs so that the union is in normal form
    # unless two different specs happen to build equal values, e.g. equal-but-distinct unhashable literals)
    n = rng.randrange(2, 5)
    members = []
    for _ in range(n * 2):
        s = sub()
        if s not in members and not _is_bottom_spec(s) and not any(_same_literal(s, m) for m in members):
            members.append(s)
        if len(members) == n:
            break
    if len(members) < 2:
        return random_leaf(rng, typevars)
    return ["union", members]


def _same_literal(s1, s2) -> bool:
    """Two unhashable-literal specs whose objects compare equal (KnownValue.__eq__: same type, ==)."""
    if s1[0] != "known_u" or s2[0] != "known_u":
        return False
    if "FlakyEq" in s1[1] or "FlakyEq" in s2[1]:
        return False
    a = eval(s1[1], {"__builtins__": {"bytearray": bytearray}})
    b = eval(s2[1], {"__builtins__": {"bytearray": bytearray}})
    return type(a) is type(b) and a == b


def _builds_equal(s1, s2) -> bool:
    """Do two specs build equal objects?  Equal specs do; so do specs that differ only in unhashable literals that
    compare equal (see _same_literal)."""
    if s1 == s2:
        return True
    if isinstance(s1, list) and isinstance(s2, list) and s1 and s2 and isinstance(s1[0], str) and isinstance(s2[0], str):
        if _same_literal(s1, s2):
            return True
        return s1[0] == s2[0] and len(s1) == len(s2) and all(_builds_equal(a, b) for a, b in zip(s1[1:], s2[1:]))
    if isinstance(s1, list) and isinstance(s2, list):
        return len(s1) == len(s2) and all(_builds_equal(a, b) for a, b in zip(s1, s2))
    return False


def has_flaky(spec) -> bool:
    """Does the value contain a literal that is not == itself (FlakyEq: __eq__ raises)?"""
    return "FlakyEq" in repr(spec)


def without_flaky(spec):
    """`spec` with every such literal replaced by an ordinary unhashable one."""
    if not has_flaky(spec):
        return spec
    if spec[0] == "known_u":
        return ["known_u", "[1]", spec[2]] if "FlakyEq" in spec[1] else spec
    if spec[0] == "annotated":  # metadata may hold specs that are not children
        return with_children(["annotated", spec[1], [m for m in spec[2]]], [without_flaky(c) for c in children(spec)])
    return with_children(spec, [without_flaky(c) for c in children(spec)])


def _is_bottom_spec(s) -> bool:
    """Never / the Any[unreachable] marker (possibly annotated): unite_values never keeps them beside other members."""
    while s[0] == "annotated":
        s = s[1]
    return s == ["never"] or s == ["any", "unreachable"]


def random_map_spec(rng, depth: int = 1, wide: bool = False):
    """{typevar name: spec}; replacement values never mention a variable of the map's own domain.
    wide=True: replacement values from the wide grammar, and sometimes a binding of the ParamSpec P (a callable whose
    parameters are spliced in, Any, or another ParamSpec)."""
    names = rng.sample(_TV, rng.randrange(1, 4))
    bind_p = wide and rng.random() < 0.3
    domain = set(names) | ({"P"} if bind_p else set())
    out = {}
    for name in names:
        for _ in range(5):
            s = random_spec(rng, depth, rng.random() < 0.3, wide) if wide else random_spec(rng, depth, typevars=rng.random() < 0.3)
            if not (spec_typevars(s) & domain):
                out[name] = s
                break
        else:
            out[name] = ["typed", "int"]
    if bind_p:
        r = rng.random()
        if r < 0.2:
            out["P"] = ["any", rng.choice(ANY_SOURCES)]
        elif r < 0.4:
            out["P"] = ["paramspec", "Q"]
        else:
            anns = [random_spec(rng, max(0, depth - 1), False, True) for _ in range(3)]
            anns = [["typed", "int"] if a[0] in ("seq", "typeddict") or (spec_typevars(a) & domain) else a for a in anns]
            params = [["q0", "pk", None, anns[0]], ["q1", "va", None, anns[1]], ["q2", "ko", None, anns[2]]]
            out["P"] = ["callable", [p for p in params if rng.random() < 0.6], ["known", "None"], None]
    return out


# ---------------------------------------------------------------------------
# the nesting matrix: every constructor that can hold a Value x every slot it has x every constructor that can sit
# in that slot, with a type variable at the leaf.  Purely enumerative (no rng).

# spec kinds that build a TypedValue (or a subclass): legal arguments of SubclassValue beside a TypeVarValue
TYPED_KINDS = {"typed", "typed_lit", "newtype", "generic", "seq", "dict", "typeddict", "callable", "overloaded",
               "asynctask"}


def _never_inner(x) -> bool:
    return False


def inner_specs(tv: str = "T") -> list:
    """(tag, spec): one value per constructor / slot, each mentioning the type variable `tv` (at a leaf)."""
    t = ["typevar", tv]
    lt = ["generic", "list", [t]]
    return [
        ("TypeVar", t),
        ("Generic", lt),
        ("Generic.args[1]", ["generic", "dict", [_S, lt]]),
        ("Sequence", ["seq", "tuple", [[False, t], [False, _I]]]),
        ("Sequence[many]", ["seq", "tuple", [[False, _I], [True, t]]]),
        ("Sequence[list]", ["seq", "list", [[False, t]]]),
        ("DictIncomplete.value", ["dict", [[["known", "'x'"], t, False, True]]]),
        ("DictIncomplete.key", ["dict", [[t, _I, True, False]]]),
        ("TypedDict.item", ["typeddict", {"a": [t, True, False]}, None, False]),
        ("TypedDict.extra_keys", ["typeddict", {"a": [_I, False, True]}, t, True]),
        ("Callable.param", ["callable", [["x", "pk", None, t]], _I, None]),
        ("Callable.return", ["callable", [], t, None]),
        ("Callable.*args", ["callable", [["a", "va", None, t]], _N, None]),
        ("Callable.**kwargs", ["callable", [["k", "ko", ["known", "1"], t], ["kw", "vk", None, t]], _N, "fn_one"]),
        ("Callable[Concatenate,P]", ["callable", [["x", "po", None, t], ["p", "ps", None, ["paramspec", "P"]]], t, None]),
        ("Callable[...]", ["callable", [["e", "el", None, ["any", "explicit"]]], t, None]),
        ("Callable[overloaded]", ["overloaded", [["callable", [["x", "po", None, _I]], _I, None],
                                                ["callable", [["x", "po", None, t]], lt, None]]]),
        ("Annotated.value", ["annotated", t, [["deprecated", "old"]]]),
        ("Annotated.metadata", ["annotated", _I, [lt]]),
        ("TypeGuard", ["annotated", ["typed", "bool"], [["typeguard", t]]]),
        ("TypeIs", ["annotated", ["typed", "bool"], [["typeis", lt]]]),
        ("ParameterTypeGuard", ["annotated", _I, [["param_typeguard", "x", t]]]),
        ("NoReturnGuard", ["annotated", _N, [["noreturn_guard", "x", t]]]),
        ("HasAttr", ["annotated", ["typed", "C"], [["hasattr", "attr", t]]]),
        ("HasAttrGuard", ["annotated", ["typed", "bool"], [["hasattr_guard", "x", "attr", t]]]),
        ("CustomCheck", ["annotated", _I, [["check_gt", tv]]]),
        ("Subclass", ["subclass", t, False]),
        ("Subclass(Generic)", ["subclass", lt, False]),
        ("Subclass(Sequence)[exactly]", ["subclass", ["seq", "tuple", [[False, t], [False, _I]]], True]),
        ("Union", ["union", [t, _I]]),
        ("Union(Generic)", ["union", [_N, lt]]),
        ("TypeAlias", ["alias", "ListOf", [t]]),
        ("TypeAlias.args[1]", ["alias", "PairOf", [_I, lt]]),
        ("AsyncTask", ["asynctask", t]),
        ("UnboundMethod", ["method", "append", lt]),
    ]


def _not(*kinds):
    return lambda x: x[0] not in kinds


def _typed_or_tv(x) -> bool:
    return x[0] in TYPED_KINDS or x[0] == "typevar"


def _any(x) -> bool:
    return True


def holder_slots() -> list:
    """(tag, applicable(inner_spec), make(inner_spec) -> spec): every slot of every constructor that holds a Value.
    `applicable` keeps the result inside the normal form the checks assume (no nested Annotated, no union directly
    inside a raw union, Type[...] only over a TypedValue or a type variable, *args/**kwargs not tuple-/TypedDict-
    annotated because Signature.make would expand them)."""
    no_union = _not("union")
    return [
        ("Generic.args[0]", _any, lambda x: ["generic", "list", [x]]),
        ("Generic.args[0|1]", _any, lambda x: ["generic", "dict", [x, _I]]),
        ("Generic.args[1|1]", _any, lambda x: ["generic", "Mapping", [_S, x]]),
        ("Sequence.members", _any, lambda x: ["seq", "tuple", [[False, _S], [False, x]]]),
        ("Sequence.members[many]", _any, lambda x: ["seq", "list", [[True, x], [False, _I]]]),
        ("KVPair.key", _any, lambda x: ["dict", [[x, _I, False, True]]]),
        ("KVPair.value", _any, lambda x: ["dict", [[["known", "'x'"], x, False, True], [_S, x, True, False]]]),
        ("TypedDictEntry.typ", _any, lambda x: ["typeddict", {"a": [_I, True, False], "b": [x, False, True]}, None, False]),
        ("TypedDict.extra_keys", _any, lambda x: ["typeddict", {"a": [_I, True, False]}, x, False]),
        ("SigParameter[po].annotation", _any, lambda x: ["callable", [["x", "po", None, x]], _I, None]),
        ("SigParameter[pk=default].annotation", _any, lambda x: ["callable", [["x", "pk", ["known", "None"], x]], _I, "fn_one"]),
        ("SigParameter[*args].annotation", _not("seq"), lambda x: ["callable", [["a", "va", None, x]], _I, None]),
        ("SigParameter[ko].annotation", _any, lambda x: ["callable", [["x", "po", None, _I], ["k", "ko", None, x]], _I, None]),
        ("SigParameter[**kwargs].annotation", _not("typeddict"), lambda x: ["callable", [["kw", "vk", None, x]], _I, None]),
        ("Signature.return_value", _any, lambda x: ["callable", [["x", "pk", None, _I]], x, None]),
        ("Signature[Concatenate,P].parameters", _any,
         lambda x: ["callable", [["x", "po", None, x], ["p", "ps", None, ["paramspec", "P"]]], _I, None]),
        ("Signature[Concatenate,P].return_value", _any,
         lambda x: ["callable", [["p", "ps", None, ["paramspec", "P"]]], x, None]),
        ("Signature[...].return_value", _any, lambda x: ["callable", [["e", "el", None, ["any", "explicit"]]], x, None]),
        ("OverloadedSignature.signatures", _any,
         lambda x: ["overloaded", [["callable", [["x", "po", None, _I]], _S, None], ["callable", [["x", "po", None, x]], x, None]]]),
        ("Annotated.value", _not("annotated"), lambda x: ["annotated", x, [["deprecated", "old"]]]),
        ("Annotated.metadata", _any, lambda x: ["annotated", _I, [x]]),
        ("TypeGuardExtension", _any, lambda x: ["annotated", ["typed", "bool"], [["typeguard", x]]]),
        ("TypeIsExtension", _any, lambda x: ["annotated", ["typed", "bool"], [["typeis", x]]]),
        ("ParameterTypeGuardExtension", _any, lambda x: ["annotated", _I, [["param_typeguard", "x", x]]]),
        ("NoReturnGuardExtension", _any, lambda x: ["annotated", _N, [["noreturn_guard", "x", x]]]),
        ("HasAttrExtension", _any, lambda x: ["annotated", ["typed", "C"], [["hasattr", "attr", x]]]),
        ("HasAttrGuardExtension", _any, lambda x: ["annotated", ["typed", "bool"], [["hasattr_guard", "x", "attr", x]]]),
        ("Subclass.typ", _typed_or_tv, lambda x: ["subclass", x, False]),
        ("Subclass[exactly].typ", _typed_or_tv, lambda x: ["subclass", x, True]),
        ("Union.vals", no_union, lambda x: ["union", [_S, x]]),
        ("TypeAlias.type_arguments", _any, lambda x: ["alias", "ListOf", [x]]),
        ("TypeAlias.type_arguments[1]", _any, lambda x: ["alias", "PairOf", [_I, x]]),
        ("AsyncTask.value", _any, lambda x: ["asynctask", x]),
        ("UnboundMethod.composite", _any, lambda x: ["method", "copy", x]),
    ]


def nesting_specs(levels: int = 2, level2_inners: Optional[Iterable[str]] = ("TypeVar", "Generic")) -> list:
    """(tag, spec) for holder(inner) over all slots x all inner_specs(), and (levels >= 2) holder(holder(inner)) over
    all slots x all slots x the inners named in `level2_inners` (None: all)."""
    slots = holder_slots()
    inners = inner_specs()
    out = []
    for htag, ok, make in slots:
        for itag, inner in inners:
            if ok(inner):
                out.append((f"{htag} <- {itag}", make(inner)))
    if levels >= 2:
        for itag, inner in inners:
            if level2_inners is not None and itag not in level2_inners:
                continue
            for h1tag, ok1, make1 in slots:
                if not ok1(inner):
                    continue
                mid = make1(inner)
                for h2tag, ok2, make2 in slots:
                    if ok2(mid):
                        out.append((f"{h2tag} <- {h1tag} <- {itag}", make2(mid)))
    return out


_Q0 = ["callable", [["q0", "pk", None, _S], ["q1", "ko", None, _U]], _N, None]

# maps for the nesting matrix (beside CORE_MAPS): replacement values of every constructor, ParamSpec bindings
NEST_MAPS = [
    {"T": ["subclass", _I, False]},
    {"T": ["seq", "tuple", [[False, _I], [True, _U]]]},
    {"T": ["typeddict", {"a": [_U, True, False]}, None, False]},
    {"T": ["callable", [["x", "pk", None, _U]], _U, None]},
    {"T": ["alias", "ListOf", [_I]]},
    {"T": ["known_u", "[1]", "m"]},
    {"P": _Q0},
    {"P": ["any", "explicit"]},
    {"P": ["paramspec", "Q"]},
    {"T": ["typed", "bytes"], "P": ["callable", [], _I, None]},
]

# neighbouring values that pyanalyze's == may or may not identify: every ordered pair inside a group goes through the
# binary laws (equal values must hash equal / be merged)
NEIGHBOUR_GROUPS = [
    # the same parameters in another order: keyword-only (equivalent signatures), positional (different signatures)
    [["callable", [["a", "ko", None, _I], ["b", "ko", None, _S]], _N, None],
     ["callable", [["b", "ko", None, _S], ["a", "ko", None, _I]], _N, None]],
    [["callable", [["a", "po", None, _I], ["b", "po", None, _S]], _N, None],
     ["callable", [["b", "po", None, _S], ["a", "po", None, _I]], _N, None],
     ["callable", [["a", "pk", None, _I], ["b", "pk", None, _S]], _N, None],
     ["callable", [["b", "pk", None, _S], ["a", "pk", None, _I]], _N, None]],
    [["overloaded", [["callable", [["x", "po", None, _I]], _I, None], ["callable", [["x", "po", None, _S]], _S, None]]],
     ["overloaded", [["callable", [["x", "po", None, _S]], _S, None], ["callable", [["x", "po", None, _I]], _I, None]]]],
    # TypedDict: key order, required / readonly / extra_keys flags
    [["typeddict", {"a": [_I, True, False], "b": [_S, True, False]}, None, False],
     ["typeddict", {"b": [_S, True, False], "a": [_I, True, False]}, None, False],
     ["typeddict", {"a": [_I, False, False], "b": [_S, True, False]}, None, False],
     ["typeddict", {"a": [_I, True, True], "b": [_S, True, False]}, None, False],
     ["typeddict", {"a": [_I, True, False], "b": [_S, True, False]}, _S, False],
     ["typeddict", {"a": [_I, True, False], "b": [_S, True, False]}, _S, True]],
    # dict-incomplete: pair order and flags
    [["dict", [[["known", "'x'"], _I, False, True], [["known", "'y'"], _S, False, True]]],
     ["dict", [[["known", "'y'"], _S, False, True], [["known", "'x'"], _I, False, True]]],
     ["dict", [[["known", "'x'"], _I, False, False], [["known", "'y'"], _S, False, True]]],
     ["dict", [[["known", "'x'"], _I, True, True], [["known", "'y'"], _S, False, True]]]],
    # Type[...]: exactly flag, argument classes
    [["subclass", ["generic", "list", [_I]], False], ["subclass", ["generic", "list", [_I]], True],
     ["subclass", ["typed", "list"], False], ["subclass", ["seq", "list", [[True, _I]]], False]],
    # aliases: with / without arguments; the value they stand for
    [["alias", "ListOf", []], ["alias", "ListOf", [_I]], ["alias", "ListOf", [_S]], ["generic", "list", [_I]],
     ["alias", "IntOrStr", []], ["union", [_I, _S]]],
    # generic / sequence / async task over the same type
    [["generic", "Awaitable", [_I]], ["asynctask", _I], ["asynctask", _S]],
    [["method", "append", ["generic", "list", [_I]]], ["method", "append", ["generic", "list", [_S]]],
     ["method", "copy", ["generic", "list", [_I]]]],
    [["ps_args", "P"], ["ps_kwargs", "P"], ["ps_args", "Q"], ["paramspec", "P"]],
    # annotated: metadata order, extension kinds over the same guarded type
    [["annotated", _I, [["deprecated", "old"], ["always_present"]]], ["annotated", _I, [["always_present"], ["deprecated", "old"]]],
     ["annotated", _I, [["param_typeguard", "x", _S]]], ["annotated", _I, [["noreturn_guard", "x", _S]]],
     ["annotated", _I, [["hasattr", "x", _S]]], ["annotated", _I, [["hasattr_guard", "x", "x", _S]]]],
]


# ---------------------------------------------------------------------------
# convenience API


def pool_specs(rng, n: int, depth: int = 2) -> list:
    """The fixed core (all classes, all known corner cases) followed by random specs up to n entries."""
    specs = [s for s in CORE_POOL[:n]]
    tries = 0
    while len(specs) < n and tries < n * 20:
        tries += 1
        s = random_spec(rng, depth)
        if s not in specs:
            specs.append(s)
    return specs


def pool(rng, n: int, depth: int = 2, builder: Optional[Builder] = None) -> list:
    b = builder or Builder()
    return [b.build(s) for s in pool_specs(rng, n, depth)]


def random_value(rng, depth: int = 2, builder: Optional[Builder] = None) -> Value:
    return (builder or Builder()).build(random_spec(rng, depth))


def random_typevar_map(rng, depth: int = 1, builder: Optional[Builder] = None) -> dict:
    return (builder or Builder()).build_map(random_map_spec(rng, depth))


def map_specs(rng, n: int) -> list:
    out = [dict(m) for m in CORE_MAPS[:n]]
    while len(out) < n:
        out.append(random_map_spec(rng))
    return out
