"""Generator of well-formed pyanalyze Values (shared by C14, C12, ...).

Only pyanalyze + stdlib.  Values are described by small JSON-able *specs* (nested lists) so that every
generated value can be recorded in a witness, rebuilt exactly by `Builder.build`, shown as a Python
expression (`to_expr`) and shrunk structurally (`children`).

    spec forms
    ["any", source]                       AnyValue(AnySource[source])
    ["never"]                             NO_RETURN_VALUE
    ["known", name]                       KnownValue(<hashable object from KNOWN_OBJECTS[name]>)
    ["known_u", literal_src, tag]         KnownValue(<unhashable object>); same (src, tag) -> same object inside
                                          one Builder, different tags -> equal but distinct objects
    ["typed", name] / ["typed_lit", name] TypedValue(TYPES[name]) / TypedValue(..., literal_only=True)
    ["newtype", name]                     NewTypeValue(NEWTYPES[name])
    ["generic", name, [spec...]]          GenericValue(TYPES[name], args)
    ["seq", name, [[is_many, spec]...]]   SequenceValue(TYPES[name], members)
    ["dict", [[k, v, is_many, is_required]...]]   DictIncompleteValue(dict, [KVPair...])
    ["typeddict", {key: [spec, required, readonly]}, extra|None, extra_readonly]   TypedDictValue
    ["callable", [[name, kind, default|None, annotation]...], ret, callable_name|None]   CallableValue(Signature.make)
    ["annotated", spec, [meta...]]        AnnotatedValue(value, metadata)   (raw constructor)
    ["subclass", spec, exactly]           SubclassValue(TypedValue|TypeVarValue)
    ["typevar", name]                     TypeVarValue from TYPEVARS (free / bounded / constrained)
    ["union", [spec...]]                  raw MultiValuedValue([...]) - may nest

    metadata forms (inside "annotated"): ["deprecated", msg] ["always_present"] ["definite", bool]
    ["literal_only"] ["check_gt", int|typevar-name] ["typeguard", spec] ["typeis", spec]
    ["param_typeguard", varname, spec] ["hasattr", attr_name, spec]  or any Value spec.

Type-variable maps are {typevar-name: spec}; `Builder.build_map` turns them into {TypeVar: Value}.
"""
from __future__ import annotations

import collections.abc
import enum
from dataclasses import dataclass
from typing import Any, Iterable, Iterator, NewType, Optional, TypeVar, Union

from pyanalyze.extensions import CustomCheck, LiteralOnly
from pyanalyze.signature import ParameterKind, Signature, SigParameter
from pyanalyze.value import (
    NO_RETURN_VALUE,
    AlwaysPresentExtension,
    AnnotatedValue,
    AnySource,
    AnyValue,
    CallableValue,
    CustomCheckExtension,
    DefiniteValueExtension,
    DeprecatedExtension,
    DictIncompleteValue,
    GenericValue,
    HasAttrExtension,
    KnownValue,
    KVPair,
    MultiValuedValue,
    NewTypeValue,
    ParameterTypeGuardExtension,
    SequenceValue,
    SubclassValue,
    TypedDictEntry,
    TypedDictValue,
    TypedValue,
    TypeGuardExtension,
    TypeIsExtension,
    TypeVarValue,
    Value,
)

# ---------------------------------------------------------------------------
# the universe of Python objects the specs refer to by name


class C:
    """plain user class"""

    attr: int = 0


class D(C):
    pass


class Color(enum.Enum):
    RED = 1
    BLUE = 2


class FlakyEq:
    """__eq__ raises (and therefore no __hash__): KnownValue(FlakyEq()) is not even == itself."""

    def __eq__(self, other):
        raise IndentationError

    def __repr__(self):
        return "FlakyEq()"


def fn_one(x: int) -> str:
    return str(x)


def fn_two(x: int) -> str:
    return "-" + str(x)


UserId = NewType("UserId", int)
Name = NewType("Name", str)

T = TypeVar("T")
U = TypeVar("U")
B = TypeVar("B", bound=int)
BC = TypeVar("BC", bound=C)
K = TypeVar("K", int, str)

TYPES = {
    "int": int, "str": str, "float": float, "bool": bool, "bytes": bytes, "object": object,
    "list": list, "dict": dict, "set": set, "tuple": tuple, "type": type, "NoneType": type(None),
    "C": C, "D": D, "Color": Color, "frozenset": frozenset,
    "Sequence": collections.abc.Sequence, "Mapping": collections.abc.Mapping,
    "Iterable": collections.abc.Iterable,
}
TYPE_EXPR = {
    "NoneType": "type(None)", "C": "valuegen.C", "D": "valuegen.D", "Color": "valuegen.Color",
    "Sequence": "collections.abc.Sequence", "Mapping": "collections.abc.Mapping",
    "Iterable": "collections.abc.Iterable",
}
NEWTYPES = {"UserId": UserId, "Name": Name}
KNOWN_OBJECTS = {
    "1": 1, "True": True, "1.0": 1.0, "0": 0, "False": False, "2": 2, "'x'": "x", "''": "", "b'x'": b"x",
    "None": None, "(1, 2)": (1, 2), "()": (), "int": int, "str": str, "C": C, "len": len,
    "fn_one": fn_one, "fn_two": fn_two, "Color.RED": Color.RED, "Color.BLUE": Color.BLUE,
    "frozenset({1})": frozenset({1}), "1j": 1j, "...": ...,
    "3": 3, "4": 4, "5": 5, "6": 6, "7": 7, "8": 8, "9": 9, "'y'": "y", "(1.0, 2)": (1.0, 2), "(True, 2)": (True, 2),
}
KNOWN_EXPR = {"C": "valuegen.C", "fn_one": "valuegen.fn_one", "fn_two": "valuegen.fn_two",
              "Color.RED": "valuegen.Color.RED", "Color.BLUE": "valuegen.Color.BLUE"}
UNHASHABLE_SRC = ["[1]", "[]", "{'a': 1}", "{1, 2}", "[1, [2]]", "{}", "bytearray(b'x')", "[1.0]", "[True]", "FlakyEq()",
                  # hashable TYPE, unhashable content
                  "([], 1)", "(1, [2])", "('a', 'b')", "(1, {})"]
CALLABLES = {"fn_one": fn_one, "fn_two": fn_two, "len": len}

# name -> (TypeVar, bound spec | None, constraint specs)
TYPEVARS = {
    "T": (T, None, ()),
    "U": (U, None, ()),
    "B": (B, ["typed", "int"], ()),
    "BC": (BC, ["typed", "C"], ()),
    "K": (K, None, (["typed", "int"], ["typed", "str"])),
}
TYPEVAR_BY_OBJ = {tv: name for name, (tv, _, _) in TYPEVARS.items()}

ANY_SOURCES = ["explicit", "unannotated", "inference", "generic_argument", "error", "unreachable"]
KINDS = {
    "po": ParameterKind.POSITIONAL_ONLY, "pk": ParameterKind.POSITIONAL_OR_KEYWORD,
    "va": ParameterKind.VAR_POSITIONAL, "ko": ParameterKind.KEYWORD_ONLY, "vk": ParameterKind.VAR_KEYWORD,
}


@dataclass(frozen=True)
class GreaterThan(CustomCheck):
    """Hashable custom check that can be generic over a TypeVar (docs/typesystem.md example)."""

    value: Union[int, TypeVar]

    def walk_values(self) -> Iterable[Value]:
        if isinstance(self.value, TypeVar):
            yield TypeVarValue(self.value)

    def substitute_typevars(self, typevars) -> "GreaterThan":
        if isinstance(self.value, TypeVar) and self.value in typevars:
            v = typevars[self.value]
            if isinstance(v, KnownValue) and isinstance(v.val, int):
                return GreaterThan(v.val)
            return GreaterThan(-abs(hash(self.value.__name__)) % 1000 - 1)  # "specified" (injective per variable)
        return self


# ---------------------------------------------------------------------------
# building


class Builder:
    """Materialises specs.  One Builder = one identity space for unhashable literals."""

    def __init__(self) -> None:
        self._unhashable: dict = {}

    def unhashable(self, src: str, tag: str) -> Any:
        key = (src, tag)
        if key not in self._unhashable:
            self._unhashable[key] = eval(src, {"__builtins__": {"bytearray": bytearray}, "FlakyEq": FlakyEq})
        return self._unhashable[key]

    def build(self, spec) -> Value:
        kind = spec[0]
        b = self.build
        if kind == "any":
            return AnyValue(AnySource[spec[1]])
        if kind == "never":
            return NO_RETURN_VALUE
        if kind == "known":
            return KnownValue(KNOWN_OBJECTS[spec[1]])
        if kind == "known_u":
            return KnownValue(self.unhashable(spec[1], spec[2]))
        if kind == "typed":
            return TypedValue(TYPES[spec[1]])
        if kind == "typed_lit":
            return TypedValue(TYPES[spec[1]], literal_only=True)
        if kind == "newtype":
            return NewTypeValue(NEWTYPES[spec[1]])
        if kind == "generic":
            return GenericValue(TYPES[spec[1]], [b(s) for s in spec[2]])
        if kind == "seq":
            return SequenceValue(TYPES[spec[1]], [(bool(m), b(s)) for m, s in spec[2]])
        if kind == "dict":
            return DictIncompleteValue(
                dict, [KVPair(b(k), b(v), bool(many), bool(req)) for k, v, many, req in spec[1]]
            )
        if kind == "typeddict":
            items = {k: TypedDictEntry(b(s), required=bool(req), readonly=bool(ro)) for k, (s, req, ro) in spec[1].items()}
            extra = b(spec[2]) if spec[2] is not None else None
            return TypedDictValue(items, extra_keys=extra, extra_keys_readonly=bool(spec[3]))
        if kind == "callable":
            params = [
                SigParameter(name, KINDS[k], default=(b(d) if d is not None else None), annotation=b(a))
                for name, k, d, a in spec[1]
            ]
            cal = CALLABLES[spec[3]] if spec[3] is not None else None
            return CallableValue(Signature.make(params, b(spec[2]), callable=cal))
        if kind == "annotated":
            return AnnotatedValue(b(spec[1]), [self.build_meta(m) for m in spec[2]])
        if kind == "subclass":
            return SubclassValue(b(spec[1]), exactly=bool(spec[2]))
        if kind == "typevar":
            tv, bound, constraints = TYPEVARS[spec[1]]
            return TypeVarValue(
                tv, bound=(b(bound) if bound is not None else None), constraints=tuple(b(c) for c in constraints)
            )
        if kind == "union":
            return MultiValuedValue([b(s) for s in spec[1]])
        raise ValueError(f"unknown spec {spec!r}")

    def build_meta(self, m):
        kind = m[0]
        if kind == "deprecated":
            return DeprecatedExtension(m[1])
        if kind == "always_present":
            return AlwaysPresentExtension()
        if kind == "definite":
            return DefiniteValueExtension(bool(m[1]))
        if kind == "literal_only":
            return CustomCheckExtension(LiteralOnly())
        if kind == "check_gt":
            return CustomCheckExtension(GreaterThan(TYPEVARS[m[1]][0] if isinstance(m[1], str) else m[1]))
        if kind == "typeguard":
            return TypeGuardExtension(self.build(m[1]))
        if kind == "typeis":
            return TypeIsExtension(self.build(m[1]))
        if kind == "param_typeguard":
            return ParameterTypeGuardExtension(m[1], self.build(m[2]))
        if kind == "hasattr":
            return HasAttrExtension(KnownValue(m[1]), self.build(m[2]))
        return self.build(m)

    def build_map(self, mapspec) -> dict:
        return {TYPEVARS[name][0]: self.build(s) for name, s in mapspec.items()}


META_KINDS = {"deprecated", "always_present", "definite", "literal_only", "check_gt", "typeguard", "typeis",
              "param_typeguard", "hasattr"}


# ---------------------------------------------------------------------------
# structure of specs (independent of pyanalyze's own walkers)


def children(spec) -> list:
    """Direct sub-specs that are Value specs."""
    kind = spec[0]
    if kind in ("generic", "union"):
        return list(spec[2] if kind == "generic" else spec[1])
    if kind == "seq":
        return [s for _, s in spec[2]]
    if kind == "dict":
        return [x for k, v, _, _ in spec[1] for x in (k, v)]
    if kind == "typeddict":
        out = [s for s, _, _ in spec[1].values()]
        if spec[2] is not None:
            out.append(spec[2])
        return out
    if kind == "callable":
        return [a for _, _, _, a in spec[1]] + [spec[2]]
    if kind == "annotated":
        out = [spec[1]]
        for m in spec[2]:
            if m[0] in ("typeguard", "typeis"):
                out.append(m[1])
            elif m[0] in ("param_typeguard", "hasattr"):
                out.append(m[2])
            elif m[0] not in META_KINDS:
                out.append(m)
        return out
    if kind == "subclass":
        return [spec[1]]
    return []


def with_children(spec, new) -> list:
    """`spec` with its direct sub-specs (in the order of children(spec)) replaced by `new`."""
    kind = spec[0]
    new = list(new)
    if kind == "generic":
        return ["generic", spec[1], new]
    if kind == "union":
        return ["union", new]
    if kind == "seq":
        return ["seq", spec[1], [[m, n] for (m, _), n in zip(spec[2], new)]]
    if kind == "dict":
        it = iter(new)
        return ["dict", [[next(it), next(it), many, req] for _, _, many, req in spec[1]]]
    if kind == "typeddict":
        it = iter(new)
        items = {k: [next(it), req, ro] for k, (_, req, ro) in spec[1].items()}
        extra = next(it) if spec[2] is not None else None
        return ["typeddict", items, extra, spec[3]]
    if kind == "callable":
        params = [[n, k, d, a] for (n, k, d, _), a in zip(spec[1], new)]
        return ["callable", params, new[-1], spec[3]]
    if kind == "annotated":
        it = iter(new)
        inner = next(it)
        metas = []
        for m in spec[2]:
            if m[0] in ("typeguard", "typeis"):
                metas.append([m[0], next(it)])
            elif m[0] in ("param_typeguard", "hasattr"):
                metas.append([m[0], m[1], next(it)])
            elif m[0] not in META_KINDS:
                metas.append(next(it))
            else:
                metas.append(m)
        return ["annotated", inner, metas]
    if kind == "subclass":
        return ["subclass", new[0], spec[2]]
    return spec


def walk_spec(spec) -> Iterator:
    yield spec
    for c in children(spec):
        yield from walk_spec(c)


def spec_typevars(spec) -> set:
    """Names of the type variables that occur in the value described by `spec` (by construction)."""
    out = set()
    for s in walk_spec(spec):
        if s[0] == "typevar":
            out.add(s[1])
        elif s[0] == "annotated":
            for m in s[2]:
                if m[0] == "check_gt" and isinstance(m[1], str):
                    out.add(m[1])
    return out


def spec_classes(spec) -> set:
    return {s[0] for s in walk_spec(spec)}


def spec_size(spec) -> int:
    return sum(1 for _ in walk_spec(spec))


def skeleton(spec, depth: int = 2) -> str:
    """Coarse structural description: constructor kinds down to `depth`; no names, no literals."""
    kind = spec[0]
    name = {
        "any": "Any", "never": "Never", "known": "Known", "known_u": "Known[unhashable]", "typed": "Typed",
        "typed_lit": "Typed[literal_only]", "newtype": "NewType", "generic": "Generic", "seq": "Sequence",
        "dict": "DictIncomplete", "typeddict": "TypedDict", "callable": "Callable", "annotated": "Annotated",
        "subclass": "Subclass", "typevar": "TypeVar", "union": "Union",
    }[kind]
    if kind == "any" and spec[1] == "unreachable":
        name = "Any[unreachable]"
    if kind == "typevar":
        _, bound, cons = TYPEVARS[spec[1]]
        name += "[bound]" if bound is not None else "[constrained]" if cons else ""
    if kind == "seq" and any(m for m, _ in spec[2]):
        name += "[many]"
    if depth <= 1:
        return name
    kids = children(spec)
    if not kids:
        return name
    inner = [skeleton(c, depth - 1) for c in kids]
    if kind != "union":
        inner = sorted(set(inner))
    return f"{name}({','.join(inner)})"


def to_expr(spec) -> str:
    """Python expression (names from pyanalyze.value / pyanalyze.signature / vp.valuegen) building the value."""
    kind = spec[0]
    e = to_expr
    if kind == "any":
        return f"AnyValue(AnySource.{spec[1]})"
    if kind == "never":
        return "NO_RETURN_VALUE"
    if kind == "known":
        return f"KnownValue({KNOWN_EXPR.get(spec[1], spec[1])})"
    if kind == "known_u":
        return f"KnownValue({'valuegen.' if spec[1] == 'FlakyEq()' else ''}{spec[1]})"
    if kind in ("typed", "typed_lit"):
        t = TYPE_EXPR.get(spec[1], spec[1])
        return f"TypedValue({t}{', literal_only=True' if kind == 'typed_lit' else ''})"
    if kind == "newtype":
        return f"NewTypeValue(valuegen.{spec[1]})"
    if kind == "generic":
        return f"GenericValue({TYPE_EXPR.get(spec[1], spec[1])}, [{', '.join(e(s) for s in spec[2])}])"
    if kind == "seq":
        return f"SequenceValue({TYPE_EXPR.get(spec[1], spec[1])}, [{', '.join(f'({bool(m)}, {e(s)})' for m, s in spec[2])}])"
    if kind == "dict":
        pairs = ", ".join(f"KVPair({e(k)}, {e(v)}, {bool(many)}, {bool(req)})" for k, v, many, req in spec[1])
        return f"DictIncompleteValue(dict, [{pairs}])"
    if kind == "typeddict":
        items = ", ".join(f"{k!r}: TypedDictEntry({e(s)}, required={bool(r)}, readonly={bool(ro)})" for k, (s, r, ro) in spec[1].items())
        extra = f", extra_keys={e(spec[2])}" if spec[2] is not None else ""
        return f"TypedDictValue({{{items}}}{extra})"
    if kind == "callable":
        ps = ", ".join(
            f"SigParameter({n!r}, ParameterKind.{KINDS[k].name}, default={e(d) if d is not None else None}, annotation={e(a)})"
            for n, k, d, a in spec[1]
        )
        cal = f", callable=valuegen.CALLABLES[{spec[3]!r}]" if spec[3] is not None else ""
        return f"CallableValue(Signature.make([{ps}], {e(spec[2])}{cal}))"
    if kind == "annotated":
        return f"AnnotatedValue({e(spec[1])}, [{', '.join(meta_expr(m) for m in spec[2])}])"
    if kind == "subclass":
        return f"SubclassValue({e(spec[1])}, exactly={bool(spec[2])})"
    if kind == "typevar":
        tv, bound, cons = TYPEVARS[spec[1]]
        extra = f", bound={e(bound)}" if bound is not None else ""
        if cons:
            extra += f", constraints=({', '.join(e(c) for c in cons)},)"
        return f"TypeVarValue(valuegen.{spec[1]}{extra})"
    if kind == "union":
        return f"MultiValuedValue([{', '.join(e(s) for s in spec[1])}])"
    raise ValueError(spec)


def meta_expr(m) -> str:
    kind = m[0]
    if kind == "deprecated":
        return f"DeprecatedExtension({m[1]!r})"
    if kind == "always_present":
        return "AlwaysPresentExtension()"
    if kind == "definite":
        return f"DefiniteValueExtension({bool(m[1])})"
    if kind == "literal_only":
        return "CustomCheckExtension(LiteralOnly())"
    if kind == "check_gt":
        return f"CustomCheckExtension(valuegen.GreaterThan({'valuegen.' + m[1] if isinstance(m[1], str) else m[1]}))"
    if kind == "typeguard":
        return f"TypeGuardExtension({to_expr(m[1])})"
    if kind == "typeis":
        return f"TypeIsExtension({to_expr(m[1])})"
    if kind == "param_typeguard":
        return f"ParameterTypeGuardExtension({m[1]!r}, {to_expr(m[2])})"
    if kind == "hasattr":
        return f"HasAttrExtension(KnownValue({m[1]!r}), {to_expr(m[2])})"
    return to_expr(m)


def map_expr(mapspec) -> str:
    return "{" + ", ".join(f"valuegen.{k}: {to_expr(v)}" for k, v in sorted(mapspec.items())) + "}"


# ---------------------------------------------------------------------------
# the fixed core pool: every class of the property's list, the known equal-but-distinct corner cases

_I, _S, _F, _N = ["typed", "int"], ["typed", "str"], ["typed", "float"], ["known", "None"]
_T, _U = ["typevar", "T"], ["typevar", "U"]

_DIGITS = [["known", str(i)] for i in range(10)]
_BIG10 = ["union", list(_DIGITS)]

CORE_POOL = [
    # Any / Never
    ["any", "explicit"], ["any", "unreachable"], ["never"],
    # literals: 1 / True / 1.0 are == in Python but distinct values
    ["known", "1"], ["known", "True"], ["known", "1.0"], ["known", "'x'"], _N, ["known", "(1, 2)"],
    ["known", "int"], ["known", "fn_one"], ["known", "Color.RED"],
    # unhashable literals; "a"/"b" are equal but distinct objects
    ["known_u", "[1]", "a"], ["known_u", "[1]", "b"], ["known_u", "{'a': 1}", "a"], ["known_u", "{1, 2}", "a"],
    ["known_u", "FlakyEq()", "a"],
    # typed
    _I, _S, _F, ["typed", "bool"], ["typed", "C"], ["typed", "list"], ["typed_lit", "str"],
    ["newtype", "UserId"],
    # generic
    ["generic", "list", [_I]], ["generic", "list", [["union", [_I, _S]]]], ["generic", "list", [["union", [_S, _I]]]],
    ["generic", "dict", [_S, _I]], ["generic", "list", [_T]],
    # sequences (is_many members)
    ["seq", "tuple", [[False, _I], [False, _S]]], ["seq", "list", [[False, ["known", "1"]], [True, _S]]],
    ["seq", "tuple", [[True, _T]]], ["seq", "set", [[False, ["known_u", "[1]", "a"]]]],
    # dict incomplete
    ["dict", [[["known", "'x'"], _I, False, True]]], ["dict", [[_S, _T, True, False]]],
    # TypedDict: same keys, different value types (same hash by design)
    ["typeddict", {"a": [_I, True, False]}, None, False], ["typeddict", {"a": [_S, True, False]}, None, False],
    ["typeddict", {"a": [_I, True, False], "b": [_T, False, True]}, _S, False],
    # callables: the two differ only in the runtime callable they describe
    ["callable", [["x", "pk", None, _I]], _S, "fn_one"], ["callable", [["x", "pk", None, _I]], _S, "fn_two"],
    ["callable", [["x", "po", None, _T], ["k", "ko", ["known", "1"], _I]], _T, None],
    # annotated
    ["annotated", _I, [["deprecated", "old"]]], ["annotated", ["union", [_I, _S]], [["definite", True]]],
    ["annotated", ["union", [_T, _I]], [["deprecated", "old"]]],
    ["annotated", _T, [["param_typeguard", "x", _T], ["check_gt", "U"]]], ["annotated", _S, [["literal_only"]]],
    ["annotated", ["typed", "bool"], [["typeis", _I]]], ["annotated", ["typed", "bool"], [["typeguard", _T]]],
    # subclass
    ["subclass", _I, False], ["subclass", _T, False], ["subclass", ["typed", "C"], True],
    # type variables: free, bounded, constrained
    _T, ["typevar", "B"], ["typevar", "K"],
    # unions built with the raw constructor, nested
    ["union", [_I, _S]], ["union", [_S, _I]], ["union", [["union", [_I, _S]], _N]],
    ["union", [["known", "1"], ["known", "'x'"]]], ["union", [_T, _I]], ["union", [["known_u", "[1]", "a"], _S]],
    ["union", [["annotated", ["union", [_I, _N]], [["deprecated", "old"]]], _S]],
    # unions of >= 10 members: MultiValuedValue switches to an index of its literal members
    _BIG10, ["union", _DIGITS[:9] + [["known", "True"]]], ["union", [["known", "1"], ["known", "True"]] + _DIGITS[2:10]],
    ["union", _DIGITS[:9] + [["generic", "list", [_I]]]], ["union", _DIGITS[:9] + [["seq", "tuple", [[True, _I]]]]],
    ["union", _DIGITS[:9] + [["known_u", "[1]", "a"]]], ["union", _DIGITS[:9] + [_S, _T]],
    ["union", _DIGITS[:9] + [["typeddict", {"a": [_I, True, False]}, None, False]]],
    # literals of a hashable type with unhashable / type-differing content
    ["known_u", "([], 1)", "a"], ["known_u", "('a', 'b')", "a"], ["known", "(1.0, 2)"], ["known", "(True, 2)"],
    ["known", "0"], ["known", "9"],
]

CORE_MAPS = [
    {"T": _I},
    {"T": _S, "U": _I},
    {"T": ["union", [_I, _S]]},
    {"T": ["generic", "list", [_U]]},
    {"T": ["never"]},
    {"T": ["annotated", _S, [["always_present"]]]},
    {"T": ["known", "1"], "B": ["typed", "bool"], "K": _S},
    {"U": ["known_u", "[1]", "m"]},
    {"T": ["any", "explicit"], "U": ["typed", "C"], "BC": ["typed", "D"]},
]


# ---------------------------------------------------------------------------
# random specs

_LEAF_TYPED = ["int", "str", "float", "bool", "bytes", "object", "C", "D", "Color", "list", "dict", "type", "NoneType"]
_KNOWN = list(KNOWN_OBJECTS)
_TV = list(TYPEVARS)


def random_leaf(rng, typevars: bool = True):
    r = rng.random()
    if r < 0.22:
        return ["typed", rng.choice(_LEAF_TYPED)]
    if r < 0.47:
        return ["known", rng.choice(_KNOWN)]
    if r < 0.57:
        return ["known_u", rng.choice(UNHASHABLE_SRC), rng.choice("abc")]
    if r < 0.68 and typevars:
        return ["typevar", rng.choice(_TV)]
    if r < 0.74:
        return ["any", rng.choice(ANY_SOURCES)]
    if r < 0.77:
        return ["never"]
    if r < 0.82:
        return ["newtype", rng.choice(list(NEWTYPES))]
    if r < 0.85:
        return ["typed_lit", "str"]
    if r < 0.90:
        return ["subclass", ["typed", rng.choice(["int", "str", "C", "D"])], rng.random() < 0.3]
    return ["typed", rng.choice(["int", "str"])]


def random_meta(rng, depth, typevars):
    r = rng.choice([0, 1, 2, 3, 4, 7, 8, 9])  # TypeGuard/TypeIs: see random_spec (only ever wrap bool)
    sub = lambda: random_spec(rng, max(0, depth - 1), typevars)  # noqa: E731
    if r == 0:
        return ["deprecated", rng.choice(["old", "gone"])]
    if r == 1:
        return ["always_present"]
    if r == 2:
        return ["definite", rng.random() < 0.5]
    if r == 3:
        return ["literal_only"]
    if r == 4:
        return ["check_gt", rng.choice(["T", "U"]) if typevars and rng.random() < 0.5 else rng.randrange(3)]
    if r == 5:
        return ["typeguard", sub()]
    if r == 6:
        return ["typeis", sub()]
    if r == 7:
        return ["param_typeguard", rng.choice(["x", "y"]), sub()]
    if r == 8:
        return ["hasattr", rng.choice(["attr", "name"]), sub()]
    return ["known", rng.choice(["1", "'x'"])]


def random_spec(rng, depth: int = 2, typevars: bool = True):
    """A random well-formed Value spec of nesting depth <= depth."""
    if depth <= 0 or rng.random() < 0.18:
        return random_leaf(rng, typevars)
    sub = lambda: random_spec(rng, depth - 1, typevars)  # noqa: E731
    r = rng.randrange(11)
    if r == 0:
        return ["generic", rng.choice(["list", "set", "frozenset", "Sequence", "Iterable"]), [sub()]]
    if r == 1:
        return ["generic", rng.choice(["dict", "Mapping"]), [sub(), sub()]]
    if r == 2:
        n = rng.randrange(0, 4)
        return ["seq", rng.choice(["tuple", "list", "set"]), [[rng.random() < 0.3, sub()] for _ in range(n)]]
    if r == 3:
        n = rng.randrange(0, 3)
        return ["dict", [[sub(), sub(), rng.random() < 0.3, rng.random() < 0.7] for _ in range(n)]]
    if r == 4:
        keys = rng.sample(["a", "b", "c"], rng.randrange(0, 4))
        items = {k: [sub(), rng.random() < 0.7, rng.random() < 0.2] for k in sorted(keys)}
        return ["typeddict", items, sub() if rng.random() < 0.25 else None, rng.random() < 0.3]
    if r == 5:
        params = []
        kinds = sorted(rng.sample(["po", "pk", "va", "ko", "vk"], rng.randrange(0, 4)), key=["po", "pk", "va", "ko", "vk"].index)
        seen_default = False
        for i, k in enumerate(kinds):
            default = None
            if k in ("po", "pk"):
                if seen_default or rng.random() < 0.3:
                    default = ["known", rng.choice(["1", "None"])]
                    seen_default = True
            elif k == "ko" and rng.random() < 0.4:
                default = ["known", "1"]
            ann = sub()
            # Signature.make expands *args: tuple[...] / **kwargs: TypedDict into several parameters
            if (k == "va" and ann[0] == "seq") or (k == "vk" and ann[0] == "typeddict"):
                ann = random_leaf(rng, typevars)
            params.append([f"p{i}", k, default, ann])
        return ["callable", params, sub(), rng.choice([None, None, "fn_one", "fn_two", "len"])]
    if r == 6:
        if rng.random() < 0.2:
            # annotations.py builds return guards only as Annotated[bool, TypeGuard[...] | TypeIs[...]]
            return ["annotated", ["typed", "bool"], [[rng.choice(["typeguard", "typeis"]), sub()]]]
        inner = sub()
        if inner[0] == "annotated":  # pyanalyze flattens nested Annotated (annotate_value)
            inner = inner[1]
        metas = []
        for _ in range(rng.randrange(1, 3)):
            m = random_meta(rng, depth, typevars)
            # annotate_value() never keeps two metadata items that compare equal; two different specs can build equal
            # items (hasattr name [1.0] / hasattr name [1]: KnownValue.__eq__ compares unhashable literals with ==)
            if not any(_builds_equal(m, m2) for m2 in metas):
                metas.append(m)
        return ["annotated", inner, metas]
    if r == 7:
        if typevars and rng.random() < 0.4:
            return ["subclass", ["typevar", rng.choice(_TV)], False]
        return ["subclass", ["typed", rng.choice(["int", "str", "C", "D", "object"])], rng.random() < 0.3]
    # unions (raw constructor; members pairwise different specs so that the union is in normal form
    # unless two different specs happen to build equal values, e.g. equal-but-distinct unhashable literals)
    n = rng.randrange(2, 5)
    members = []
    for _ in range(n * 2):
        s = sub()
        if s not in members and not _is_bottom_spec(s) and not any(_same_literal(s, m) for m in members):
            members.append(s)
        if len(members) == n:
            break
    if len(members) < 2:
        return random_leaf(rng, typevars)
    return ["union", members]


def _same_literal(s1, s2) -> bool:
    """Two unhashable-literal specs whose objects compare equal (KnownValue.__eq__: same type, ==)."""
    if s1[0] != "known_u" or s2[0] != "known_u":
        return False
    if "FlakyEq" in s1[1] or "FlakyEq" in s2[1]:
        return False
    a = eval(s1[1], {"__builtins__": {"bytearray": bytearray}})
    b = eval(s2[1], {"__builtins__": {"bytearray": bytearray}})
    return type(a) is type(b) and a == b


def _builds_equal(s1, s2) -> bool:
    """Do two specs build equal objects?  Equal specs do; so do specs that differ only in unhashable literals that
    compare equal (see _same_literal)."""
    if s1 == s2:
        return True
    if isinstance(s1, list) and isinstance(s2, list) and s1 and s2 and isinstance(s1[0], str) and isinstance(s2[0], str):
        if _same_literal(s1, s2):
            return True
        return s1[0] == s2[0] and len(s1) == len(s2) and all(_builds_equal(a, b) for a, b in zip(s1[1:], s2[1:]))
    if isinstance(s1, list) and isinstance(s2, list):
        return len(s1) == len(s2) and all(_builds_equal(a, b) for a, b in zip(s1, s2))
    return False


def _is_bottom_spec(s) -> bool:
    """Never / the Any[unreachable] marker (possibly annotated): unite_values never keeps them beside other members."""
    while s[0] == "annotated":
        s = s[1]
    return s == ["never"] or s == ["any", "unreachable"]


def random_map_spec(rng, depth: int = 1):
    """{typevar name: spec}; replacement values never mention a variable of the map's own domain."""
    names = rng.sample(_TV, rng.randrange(1, 4))
    out = {}
    for name in names:
        for _ in range(5):
            s = random_spec(rng, depth, typevars=rng.random() < 0.3)
            if not (spec_typevars(s) & set(names)):
                out[name] = s
                break
        else:
            out[name] = ["typed", "int"]
    return out


# ---------------------------------------------------------------------------
# convenience API


def pool_specs(rng, n: int, depth: int = 2) -> list:
    """The fixed core (all classes, all known corner cases) followed by random specs up to n entries."""
    specs = [s for s in CORE_POOL[:n]]
    tries = 0
    while len(specs) < n and tries < n * 20:
        tries += 1
        s = random_spec(rng, depth)
        if s not in specs:
            specs.append(s)
    return specs


def pool(rng, n: int, depth: int = 2, builder: Optional[Builder] = None) -> list:
    b = builder or Builder()
    return [b.build(s) for s in pool_specs(rng, n, depth)]


def random_value(rng, depth: int = 2, builder: Optional[Builder] = None) -> Value:
    return (builder or Builder()).build(random_spec(rng, depth))


def random_typevar_map(rng, depth: int = 1, builder: Optional[Builder] = None) -> dict:
    return (builder or Builder()).build_map(random_map_spec(rng, depth))


def map_specs(rng, n: int) -> list:
    out = [dict(m) for m in CORE_MAPS[:n]]
    while len(out) < n:
        out.append(random_map_spec(rng))
    return out
