import sys
from vp.core import worker_main

if __name__ == "__main__":
    sys.exit(worker_main(sys.argv[1:]))
